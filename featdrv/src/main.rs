//! featdrv: decodes every frame of a corpus file (one hex frame per line) with whatever
//! feature selection rtcm-rs was built with and prints, per frame: index, message number, a 64-bit FNV-1a hash of
//! the complete Debug rendering of the decoded message, the first 240 characters of that rendering, and what this
//! configuration's encoder makes of the decoded message.
use rtcm_rs::prelude::*;

fn unhex(s: &str) -> Vec<u8> {
    let s = s.trim();
    (0..s.len() / 2).filter_map(|i| u8::from_str_radix(&s[2 * i..2 * i + 2], 16).ok()).collect()
}

fn fnv(s: &str) -> u64 {
    let mut h: u64 = 0xcbf29ce484222325;
    for b in s.bytes() {
        h ^= b as u64;
        h = h.wrapping_mul(0x100000001b3);
    }
    h
}

fn main() {
    let path = std::env::args().nth(1).expect("corpus path");
    let txt = std::fs::read_to_string(path).expect("read corpus");
    for (i, line) in txt.lines().enumerate() {
        let f = unhex(line);
        match MessageFrame::new(&f) {
            Ok(mf) => {
                let m = mf.get_message();
                // also exercise the encoder of this configuration on what it decoded
                let mut b = MessageBuilder::new();
                let re = match b.build_message(&m) {
                    Ok(fr) => format!("reencoded:{}", fr.len()),
                    Err(e) => format!("refused:{:?}", e),
                };
                let d = format!("{:?}", m);
                let short: String = d.chars().take(240).collect();
                println!("{}\t{:?}\t{:016x}\t{}\t{}", i, mf.message_number(), fnv(&d), short, re);
            }
            Err(e) => println!("{}\tREJECTED {:?}", i, e),
        }
    }
}
