//! featdrv: decodes every frame of a corpus file (one hex frame per line) with whatever
//! feature selection rtcm-rs was built with and prints the Debug rendering of the result.
use rtcm_rs::prelude::*;

fn unhex(s: &str) -> Vec<u8> {
    let s = s.trim();
    (0..s.len() / 2).filter_map(|i| u8::from_str_radix(&s[2 * i..2 * i + 2], 16).ok()).collect()
}

fn main() {
    let path = std::env::args().nth(1).expect("corpus path");
    let txt = std::fs::read_to_string(path).expect("read corpus");
    for (i, line) in txt.lines().enumerate() {
        let f = unhex(line);
        match MessageFrame::new(&f) {
            Ok(mf) => {
                let m = mf.get_message();
                // also exercise the encoder of this configuration on what it decoded
                let mut b = MessageBuilder::new();
                let re = match b.build_message(&m) {
                    Ok(fr) => format!("reencoded:{}", fr.len()),
                    Err(e) => format!("refused:{:?}", e),
                };
                println!("{}\t{:?}\t{:?}\t{}", i, mf.message_number(), m, re);
            }
            Err(e) => println!("{}\tREJECTED {:?}", i, e),
        }
    }
}
