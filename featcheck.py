"""C19: every message feature can be selected on its own, with or without std.

Configurations: each single msgNNNN feature, the empty selection, all_msgs without std;
each additionally with serde (all of them, in both tiers; the tiers differ in corpus size).  For every
configuration a small driver crate (featdrv) is built against
rtcm-rs {default-features = false, features = [selection]} -- a compile error is a
violation ("the crate builds") -- and run on a corpus of frames written by the full
build; its output must be: identical to the full build's rendering for frames of a
selected type, `MsgNotSupported { message_number: n }` for every other number.
"""
import json, os, re, shutil, subprocess, sys, time, hashlib, random
from concurrent.futures import ThreadPoolExecutor

ROOT = os.path.dirname(os.path.abspath(__file__))
REPO = os.environ.get("VERIF_REPO", os.path.normpath(os.path.join(ROOT, "..", "repo")))
WORK = os.path.join(ROOT, "target", "feat")
ENV = dict(os.environ)
ENV["CARGO_NET_OFFLINE"] = "true"
ENV.pop("RUSTFLAGS", None)
ENV.pop("CARGO_TARGET_DIR", None)
NSLOTS = 16


def say(*a):
    print(*a, flush=True)


def features_from_tree():
    txt = open(os.path.join(REPO, "Cargo.toml")).read()
    feats = []
    infeat = False
    for line in txt.splitlines():
        t = line.strip()
        if t.startswith("["):
            infeat = t == "[features]"
            continue
        if infeat:
            m = re.match(r'^"?(msg\d+)"?\s*=', t)
            if m:
                feats.append(m.group(1))
    return sorted(set(feats))


def slot_dir(i):
    return os.path.join(WORK, "slot%02d" % i)


def prepare_slot(i):
    d = slot_dir(i)
    os.makedirs(os.path.join(d, "src"), exist_ok=True)
    shutil.copy(os.path.join(ROOT, "featdrv", "src", "main.rs"), os.path.join(d, "src", "main.rs"))
    lock = os.path.join(REPO, "Cargo.lock")
    if os.path.exists(lock) and not os.path.exists(os.path.join(d, "Cargo.lock")):
        shutil.copy(lock, os.path.join(d, "Cargo.lock"))
    return d


def build_and_run(slot, name, feats, corpus):
    d = prepare_slot(slot)
    tmpl = open(os.path.join(ROOT, "featdrv", "Cargo.toml.in")).read()
    fl = ", ".join('"%s"' % f for f in feats)
    open(os.path.join(d, "Cargo.toml"), "w").write(tmpl.replace("@REPO@", REPO).replace("@FEATURES@", fl))
    t0 = time.time()
    p = subprocess.run(["cargo", "build", "--offline", "--quiet"], cwd=d, env=ENV, stdout=subprocess.PIPE, stderr=subprocess.STDOUT, text=True)
    if p.returncode != 0:
        return {"name": name, "features": feats, "built": False, "log": p.stdout[-4000:], "build_s": time.time() - t0}
    exe = os.path.join(d, "target", "debug", "featdrv")
    try:
        # bytes, not text: the renderings contain characters such as U+0085 that str.splitlines() and
        # universal-newline decoding treat as line ends (false alarm met at seed 6, DESIGN 6.3)
        r = subprocess.run([exe, corpus], stdout=subprocess.PIPE, stderr=subprocess.PIPE, timeout=600)
    except subprocess.TimeoutExpired:
        return {"name": name, "features": feats, "built": True, "ran": False, "timed_out": True, "log": "driver timed out", "build_s": time.time() - t0}
    if r.returncode != 0:
        return {"name": name, "features": feats, "built": True, "ran": False, "log": (r.stderr or b"").decode("utf-8", "replace")[-3000:], "build_s": time.time() - t0}
    lines = r.stdout.decode("utf-8", "replace").split("\n")
    if lines and lines[-1] == "":
        lines.pop()
    return {"name": name, "features": feats, "built": True, "ran": True, "out": lines, "build_s": time.time() - t0}


def frame_number(hexframe):
    b = bytes.fromhex(hexframe.strip())
    l = ((b[1] & 3) << 8) | b[2]
    if l < 2:
        return None
    return (b[3] << 4) | (b[4] >> 4)


def strip_reenc(line):
    # index \t number \t message \t reencode-status
    return line.split("\t")


def main(prop, tier, seed, replay_path):
    t0 = time.time()
    os.makedirs(WORK, exist_ok=True)
    os.makedirs(os.path.join(ROOT, "evidence"), exist_ok=True)
    os.makedirs(os.path.join(ROOT, "replays"), exist_ok=True)
    evid_path = os.path.join(ROOT, "evidence", prop + ".json")
    inconclusive = []
    violations = []  # (signature, detail, replay)
    feats = features_from_tree()
    rng = random.Random(seed)

    # corpus from the full harness build
    sys.path.insert(0, ROOT)
    import importlib.util, importlib.machinery
    spec = importlib.util.spec_from_file_location("checkdrv", os.path.join(ROOT, "check"), loader=importlib.machinery.SourceFileLoader("checkdrv", os.path.join(ROOT, "check")))
    chk = importlib.util.module_from_spec(spec)
    spec.loader.exec_module(chk)
    ok, log = chk.build("release")
    corpus = os.path.join(WORK, "corpus-%d.txt" % os.getpid())
    if not ok:
        inconclusive.append("harness build failed:\n" + log[-2000:])
    else:
        env = dict(ENV)
        env["VERIF_REPO"] = REPO
        p = subprocess.run([chk.binary("release"), "CORPUS", "--tier", tier, "--seed", str(seed), "--out", corpus], env=env, stdout=subprocess.PIPE, stderr=subprocess.PIPE, text=True)
        if p.returncode != 0 or not os.path.exists(corpus):
            inconclusive.append("corpus generation failed: " + (p.stderr or "")[-1000:])

    configs = []
    if replay_path:
        w = json.load(open(replay_path))
        rp = w.get("replay", w)
        configs.append((rp.get("name", "replay"), rp.get("features", [])))
    else:
        for f in feats:
            configs.append((f, [f]))
        configs.append(("empty_selection", []))
        configs.append(("all_msgs_no_std", ["all_msgs"]))
        serde_cfgs = [(f + "+serde", [f, "serde"]) for f in feats] + [("empty_selection+serde", ["serde"]), ("all_msgs_no_std+serde", ["all_msgs", "serde"])]
        # every serde variant in both tiers: a hand-maintained cfg list can be wrong for exactly
        # one (feature, serde) pair (seeded change C19-R2), so sampling them is not enough
        configs += serde_cfgs
    # "builds without the standard library": on this host every selection links against std anyway, so a dependency
    # that silently enables its own `std` feature (e.g. `default-features = false` lost in a manifest edit) would
    # still build here and fail only on a bare-metal target.  What cargo resolved is observable: no normal (non-build,
    # non-proc-macro) dependency of a selection without `std` may have a feature called "std" switched on.
    graph_checked = 0
    for name, fl in [("empty_selection", []), ("msg1005", ["msg1005"]), ("all_msgs_no_std", ["all_msgs"]), ("empty_selection+serde", ["serde"]), ("msg1005+serde", ["msg1005", "serde"]), ("msg1029+serde", ["msg1029", "serde"]), ("all_msgs_no_std+serde", ["all_msgs", "serde"])]:
        if any(f.startswith("msg") and f not in feats for f in fl):
            continue
        cmd = ["cargo", "tree", "--offline", "--manifest-path", os.path.join(REPO, "Cargo.toml"), "-e", "features,no-proc-macro,no-build,no-dev", "--no-default-features"]
        if fl:
            cmd += ["--features", ",".join(fl)]
        r = subprocess.run(cmd, stdout=subprocess.PIPE, stderr=subprocess.PIPE, text=True, env=dict(os.environ, CARGO_NET_OFFLINE="true"))
        if r.returncode != 0:
            inconclusive.append("cargo tree failed for %s: %s" % (name, r.stderr[-400:]))
            continue
        graph_checked += 1
        bad = sorted(set(l.strip(" │├└─") for l in r.stdout.splitlines() if 'feature "std"' in l))
        if bad:
            violations.append(("C19.no_std_dependency_graph|%s" % name, "selection %s (default features off): the resolved dependency graph enables %s -- the crate would not build without the standard library" % (fl, "; ".join(bad[:4])), {"name": name, "features": fl, "kind": "dependency_graph"}))
    results = {}
    full = None
    if not inconclusive:
        # the full (reference) configuration first
        full = build_and_run(0, "full_default_features", ["all_msgs", "std"], corpus)
        if not (full.get("built") and full.get("ran")):
            inconclusive.append("reference configuration (all_msgs, std) did not build/run: " + full.get("log", "")[-1500:])
    frames = [l for l in open(corpus).read().split("\n") if l] if os.path.exists(corpus) else []
    if full and full.get("ran") and len(full["out"]) != len(frames):
        inconclusive.append("reference configuration printed %d lines for %d frames" % (len(full["out"]), len(frames)))
    numbers = [frame_number(h) for h in frames]
    if not inconclusive:
        # longest-build-first is unknown; simple static partition over slots
        def work(slot):
            out = []
            for i, (name, fl) in enumerate(configs):
                if i % NSLOTS == slot:
                    out.append(build_and_run(slot + 1, name, fl, corpus))
            return out
        with ThreadPoolExecutor(max_workers=NSLOTS) as ex:
            for lst in ex.map(work, range(NSLOTS)):
                for r in lst:
                    results[r["name"]] = r
    compared = 0
    nontrivial = set()
    samples = []
    per_cfg = {}
    fullout = full["out"] if full and full.get("ran") else []
    for name, fl in configs:
        r = results.get(name)
        if r is None:
            continue
        selected = set()
        for f in fl:
            if f == "all_msgs":
                selected |= set(int(x[3:]) for x in feats)
            elif f.startswith("msg"):
                selected.add(int(f[3:]))
        if not r["built"]:
            violations.append(("C19.builds|%s" % name, "configuration %s (features %s, default-features off) does not build:\n%s" % (name, fl, r["log"][-1500:]), {"name": name, "features": fl}))
            per_cfg[name] = "BUILD FAILED"
            continue
        if not r.get("ran") and r.get("timed_out"):
            # a wall-clock limit on a loaded machine is not a verdict
            inconclusive.append("driver of configuration %s exceeded its 600 s wall-clock limit" % name)
            per_cfg[name] = "TIMED OUT"
            continue
        if not r.get("ran"):
            violations.append(("C19.driver_runs|%s" % name, "driver of configuration %s failed: %s" % (name, r.get("log", "")[-800:]), {"name": name, "features": fl}))
            per_cfg[name] = "RUN FAILED"
            continue
        out = r["out"]
        if len(out) != len(frames):
            violations.append(("C19.driver_runs|%s" % name, "driver printed %d lines for %d frames" % (len(out), len(frames)), {"name": name, "features": fl}))
            continue
        bad = 0
        n_sel = 0
        for i, line in enumerate(out):
            compared += 1
            n = numbers[i]
            parts = line.split("\t")
            # index, number, hash of the full Debug rendering, its first 240 characters, re-encoding
            msg = parts[3] if len(parts) > 3 else line
            if n is None:
                exp = "Empty"
                okk = msg == exp
            elif n in selected:
                n_sel += 1
                nontrivial.add((name, i))
                fparts = fullout[i].split("\t")
                exp = fparts[3] if len(fparts) > 3 else fullout[i]
                okk = parts[1:] == fparts[1:]
            else:
                exp = "MsgNotSupported(MsgNotSupportedT { message_number: %d })" % n
                okk = msg == exp
                nontrivial.add((name, n))
            if not okk:
                bad += 1
                if bad <= 1:
                    kind = "selected_type_differs" if (n in selected) else "other_number_not_unsupported"
                    violations.append(("C19.decodes_like_full_build|%s|%s" % (name, kind), "configuration %s: frame %d (number %s) renders %s ; expected %s" % (name, i, n, line[:300], (fullout[i] if n in selected else exp)[:300]), {"name": name, "features": fl, "frame": frames[i]}))
        per_cfg[name] = {"frames": len(out), "frames_of_selected_type": n_sel, "mismatches": bad, "build_s": round(r["build_s"], 1)}
        if len(samples) < 4 and n_sel:
            k = next(i for i, n in enumerate(numbers) if n in selected)
            samples.append({"configuration": name, "features": fl, "frame": frames[k][:80], "rendering": out[k][:200]})
        if fl and n_sel == 0 and any(f.startswith("msg") for f in fl):
            inconclusive.append("configuration %s: corpus holds no frame of the selected type" % name)
    try:
        os.remove(corpus)
    except OSError:
        pass

    # known findings
    known = {}
    try:
        k = json.load(open(os.path.join(ROOT, "known_findings.json")))
        for f in k.get("findings", []):
            if f.get("property") == prop:
                known[f["signature"]] = f
    except Exception:
        pass
    wall = time.time() - t0
    n_cfg_done = len([1 for v in per_cfg.values()])
    coverage = {
        "evaluations": int(compared),
        "distinct_nontrivial": len(nontrivial),
        "rule": "evaluations = (configuration, corpus frame) comparisons; non-trivial = frame of a selected type compared with the full build, or a distinct (configuration, other number) pair expected to be unsupported; configurations enumerated from the tree's feature list",
        "samples": samples or [{"note": "no configuration produced output"}],
        "exhaustive": (not replay_path) and n_cfg_done == len(configs),
        "explanation": "exhaustive over configurations (every single feature, empty, all_msgs without std; serde variants sampled in quick); the compile step is a build-configuration observation, the decode comparison is a runtime observation",
        "configurations": len(configs),
        "configurations_built_and_run": n_cfg_done,
        "message_features": len(feats),
        "corpus_frames": len(frames),
        "dependency_graphs_checked_for_std_features": graph_checked,
        "per_configuration": per_cfg,
        "inconclusive_reasons": inconclusive,
    }
    viol_lines = []
    known_lines = []
    for sig, detail, rp in violations:
        if sig in known:
            known_lines.append("KNOWN-FINDING: property=%s %s" % (prop, known[sig].get("what", sig)))
            continue
        h = hashlib.sha1((prop + sig).encode()).hexdigest()[:12]
        path = os.path.join(ROOT, "replays", "%s-%s.json" % (prop, h))
        json.dump({"property": prop, "signature": sig, "detail": detail, "replay": rp}, open(path, "w"), indent=1)
        viol_lines.append((path, sig, detail))
    coverage["verdict"] = "violated" if viol_lines else ("inconclusive" if inconclusive else "held_on_observed")
    evidence = {"property_id": prop, "tier": tier, "seed": seed, "level": "exploration", "coverage": coverage,
                "assumptions": ["a host build of the #![no_std] library detects accidental use of std (no bare-metal target is installed)", "Debug rendering of messages is deterministic"],
                "wall_s": round(wall, 2), "violations": len(viol_lines)}
    if not replay_path:
        json.dump(evidence, open(evid_path, "w"), indent=1)
    for l in known_lines:
        say(l)
    for path, sig, detail in viol_lines:
        say("VIOLATION property=%s replay=%s" % (prop, path))
        say("  signature=%s" % sig)
        say("  " + detail[:800].replace("\n", "\n  "))
    if viol_lines:
        return 1
    if inconclusive:
        for w in inconclusive:
            say("INCONCLUSIVE: property=%s %s" % (prop, w[:2000]))
        return 2
    say("OK property=%s tier=%s seed=%d configurations=%d comparisons=%d wall=%.1fs" % (prop, tier, seed, len(configs), compared, wall))
    return 0
