#!/bin/sh
# Builds the framework from files on disk only (offline).
set -e
cd "$(dirname "$0")/harness"
export CARGO_NET_OFFLINE=true
unset RUSTFLAGS CARGO_TARGET_DIR
cargo build --offline --release
cargo build --offline --profile relchk
