#!/bin/sh
# Builds the framework from files on disk only (offline): the quick-tier builds (release, release + overflow checks, release against the no_std library),
# concurrently, each in its own target directory (the same ones ./check uses).
set -e
cd "$(dirname "$0")/harness"
export CARGO_NET_OFFLINE=true
unset RUSTFLAGS CARGO_TARGET_DIR
cargo build --offline --release --target-dir ../target/harness-release &
P1=$!
cargo build --offline --profile relchk --target-dir ../target/harness-relchk &
P2=$!
# third leg: the same harness against the library without its `std` feature
cargo build --offline --release --no-default-features --target-dir ../target/harness-nostd &
P3=$!
wait $P1
wait $P2
wait $P3
