#!/bin/sh
# Builds the framework from files on disk only (offline): the two quick-tier profiles,
# concurrently, each in its own target directory (the same ones ./check uses).
set -e
cd "$(dirname "$0")/harness"
export CARGO_NET_OFFLINE=true
unset RUSTFLAGS CARGO_TARGET_DIR
cargo build --offline --release --target-dir ../target/harness-release &
P1=$!
cargo build --offline --profile relchk --target-dir ../target/harness-relchk &
P2=$!
wait $P1
wait $P2
