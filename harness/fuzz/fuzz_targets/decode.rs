//! Coverage-guided auxiliary stage of C02 (thorough tier).  A plain byte fuzzer never gets
//! past the CRC, so the input is (selector, payload): the target writes a message number into
//! the first 12 payload bits and wraps the payload with its own CRC-24Q.  Crashes are not
//! trusted as verdicts: the driver converts every artifact to the frame it stands for and
//! replays it through `rtcm-verif C02 --replay`.
#![no_main]
use libfuzzer_sys::fuzz_target;
use rtcm_rs::prelude::*;

include!("../wrap.rs");

fuzz_target!(|data: &[u8]| {
    if let Some(f) = wrap(data) {
        let mut it = MsgFrameIter::new(&f);
        let mut calls = 0usize;
        while let Some(fr) = (&mut it).next() {
            let m = fr.get_message();
            // reflexive equality (NaN would break it)
            assert!(m == m);
            calls += 1;
            assert!(calls <= f.len() + 1);
        }
    }
});
