// Shared by the fuzz target and by `rtcm-verif C02 --replay` (kind fuzz_input): turns a raw
// fuzzer input (selector, payload) into the CRC-valid frame it stands for.

const NUMBERS: &[u16] = &[
    1001, 1002, 1003, 1004, 1005, 1006, 1007, 1008, 1009, 1010, 1011, 1012, 1013, 1014, 1015, 1016, 1017, 1019, 1020, 1021, 1022, 1023, 1024, 1025, 1026, 1027, 1029, 1030, 1031, 1032, 1033, 1034, 1035, 1037, 1038, 1039, 1041, 1042, 1044, 1045, 1046, 1057, 1058, 1059, 1060, 1061, 1062, 1063, 1064, 1065, 1066, 1067, 1068, 1071, 1072, 1073, 1074, 1075, 1076, 1077, 1081, 1082, 1083, 1084, 1085, 1086, 1087, 1091, 1092, 1093, 1094, 1095, 1096, 1097, 1101, 1102, 1103, 1104, 1105, 1106, 1107, 1111, 1112, 1113, 1114, 1115, 1116, 1117, 1121, 1122, 1123, 1124, 1125, 1126, 1127, 1131, 1132, 1133, 1134, 1135, 1136, 1137, 1230, 1300, 1301, 1302, 1303, 1304,
];

fn crc24q(data: &[u8]) -> u32 {
    let mut crc: u32 = 0;
    for &b in data {
        crc ^= (b as u32) << 16;
        for _ in 0..8 {
            crc <<= 1;
            if crc & 0x0100_0000 != 0 {
                crc ^= 0x0186_4CFB;
            }
        }
    }
    crc & 0x00FF_FFFF
}

pub fn wrap(data: &[u8]) -> Option<Vec<u8>> {
    if data.len() < 4 {
        return None;
    }
    let sel = ((data[0] as usize) << 8) | data[1] as usize;
    let number: u16 = if sel & 0x8000 != 0 { (sel & 0x0FFF) as u16 } else { NUMBERS[sel % NUMBERS.len()] };
    let mut payload: Vec<u8> = data[2..].iter().copied().take(1023).collect();
    payload[0] = (number >> 4) as u8;
    payload[1] = (payload[1] & 0x0F) | ((number as u8 & 0x0F) << 4);
    let mut f = vec![0xD3, (payload.len() >> 8) as u8, payload.len() as u8];
    f.extend_from_slice(&payload);
    let c = crc24q(&f);
    f.extend_from_slice(&[(c >> 16) as u8, (c >> 8) as u8, c as u8]);
    Some(f)
}

