//! C02: decoding is total -- no panic, no hang, documented outcomes only, finite floats,
//! reflexive equality -- on any byte input, in both build profiles.

use crate::gen::{self, Hostile};
use crate::mon::{guard, hex, hex_short, unhex, Ctx};
use crate::par;
use crate::rng::{hash_bytes, Rng};
use crate::vtree;
use crate::{Outcome, Params};
use rtcm_rs::prelude::*;
use serde_json::{json, Value};
use std::sync::atomic::{AtomicBool, AtomicU64, Ordering};
use std::sync::{Arc, Mutex};

pub struct Watch {
    beats: Vec<AtomicU64>,
    busy: Vec<AtomicBool>,
    inputs: Vec<Mutex<Vec<u8>>>,
    stop: AtomicBool,
}

impl Watch {
    pub fn new(n: usize) -> Arc<Watch> {
        Arc::new(Watch {
            beats: (0..n).map(|_| AtomicU64::new(0)).collect(),
            busy: (0..n).map(|_| AtomicBool::new(false)).collect(),
            inputs: (0..n).map(|_| Mutex::new(Vec::new())).collect(),
            stop: AtomicBool::new(false),
        })
    }
    #[inline]
    pub fn enter(&self, w: usize, input: &[u8]) {
        if w < self.beats.len() {
            if let Ok(mut g) = self.inputs[w].lock() {
                g.clear();
                g.extend_from_slice(input);
            }
            self.busy[w].store(true, Ordering::Relaxed);
            self.beats[w].fetch_add(1, Ordering::Relaxed);
        }
    }
    #[inline]
    pub fn leave(&self, w: usize) {
        if w < self.beats.len() {
            self.busy[w].store(false, Ordering::Relaxed);
            self.beats[w].fetch_add(1, Ordering::Relaxed);
        }
    }
    /// supervisor: an operation on one input still running after `limit_s` seconds gets its
    /// input dumped; the process exits with status 3 and the driver re-executes that input
    /// alone, deciding on CPU time (never on this wall-clock observation).
    pub fn supervise(self: &Arc<Watch>, limit_s: u64) -> std::thread::JoinHandle<()> {
        let me = self.clone();
        std::thread::spawn(move || {
            let n = me.beats.len();
            let mut last: Vec<(u64, u64)> = vec![(0, 0); n]; // (beat, seconds unchanged)
            loop {
                std::thread::sleep(std::time::Duration::from_secs(1));
                if me.stop.load(Ordering::Relaxed) {
                    return;
                }
                for w in 0..n {
                    let b = me.beats[w].load(Ordering::Relaxed);
                    if b == last[w].0 && me.busy[w].load(Ordering::Relaxed) {
                        last[w].1 += 1;
                        if last[w].1 >= limit_s {
                            let input = me.inputs[w].lock().map(|g| g.clone()).unwrap_or_default();
                            let root = std::env::var("VERIF_ROOT").unwrap_or_else(|_| ".".into());
                            let path = format!("{}/target/hang-suspect-{}.json", root, std::process::id());
                            let _ = std::fs::write(&path, serde_json::to_string(&json!({"kind":"bytes","hex":hex(&input)})).unwrap());
                            eprintln!("HANG-SUSPECT {}", path);
                            std::process::exit(3);
                        }
                    } else {
                        last[w] = (b, 0);
                    }
                }
            }
        })
    }
    pub fn stop(&self) {
        self.stop.store(true, Ordering::Relaxed);
    }
}

fn check_message(ctx: &mut Ctx, m: &Message, frame: &[u8], replay: &dyn Fn() -> Value) {
    match m {
        Message::Empty => ctx.count("outcome_empty"),
        Message::Corrupt => ctx.count("outcome_corrupt"),
        Message::MsgNotSupported(_) => ctx.count("outcome_not_supported"),
        _ => {
            ctx.count("outcome_typed");
            let n = m.number().unwrap_or(0);
            ctx.count_dyn(format!("typed:{}", n));
            // reflexive equality
            #[allow(clippy::eq_op)]
            if !(m == m) {
                ctx.violation(format!("C02.self_equal|{}", n), "C02.self_equal", format!("decoded message {} does not compare equal to itself; frame={}", n, hex_short(frame)), replay());
            }
            // every float leaf finite (generic walk through the value tree)
            match guard(|| vtree::to_v(m)) {
                Ok(Ok(v)) => {
                    let mut bad: Option<f64> = None;
                    vtree::for_each_float(&v, &mut |x, fin| {
                        if !fin {
                            bad = Some(x)
                        }
                    });
                    if let Some(x) = bad {
                        ctx.violation(format!("C02.finite|{}", n), "C02.finite", format!("decoded message {} contains a non-finite float {}; frame={}", n, x, hex_short(frame)), replay());
                    }
                }
                _ => ctx.count("serialize_failed_or_panicked(left_to_C20)"),
            }
        }
    }
}

/// one byte string: iterator run + decode of every frame found
pub fn check_bytes(ctx: &mut Ctx, b: &[u8], watch: Option<&Watch>, origin: &'static str) {
    ctx.eval();
    ctx.count(origin);
    let replay = || json!({"kind":"bytes","hex":hex(b)});
    let w = ctx.worker;
    if let Some(wt) = watch {
        wt.enter(w, b);
    }
    let r = guard(|| {
        let mut it = MsgFrameIter::new(b);
        let mut calls = 0usize;
        let mut msgs: Vec<(Message, usize, usize)> = Vec::new();
        let mut runaway = false;
        loop {
            let f = (&mut it).next();
            calls += 1;
            match f {
                Some(fr) => {
                    let end = it.consumed();
                    let start = end.saturating_sub(fr.frame_len());
                    let m = fr.get_message();
                    if msgs.len() < 64 {
                        msgs.push((m, start, end));
                    }
                }
                None => break,
            }
            if calls > b.len() + 1 {
                runaway = true;
                break;
            }
        }
        // the single-call entry point as well
        let (_c, f) = next_msg_frame(b);
        let first = f.map(|f| f.get_message());
        (msgs, calls, runaway, first)
    });
    if let Some(wt) = watch {
        wt.leave(w);
    }
    match r {
        Err(p) => {
            ctx.panic_violation("C02.no_panic", &p, &format!("scanning/decoding ({})", origin), replay());
        }
        Ok((msgs, calls, runaway, first)) => {
            if runaway {
                ctx.violation("C02.terminates".into(), "C02.terminates", format!("iterator needed more than len+1 = {} next() calls", b.len() + 1), replay());
            }
            ctx.count_n("next_calls", calls as u64);
            if msgs.is_empty() {
                ctx.count("inputs_without_frame");
            }
            for (m, s, e) in &msgs {
                check_message(ctx, m, &b[*s..*e], &replay);
            }
            let _ = first;
        }
    }
}

pub fn run(p: &Params) -> Outcome {
    let seed = p.seed;
    let n = p.size(8_000_000, 200_000_000);
    let per = n / p.workers as u64;
    let nums: Vec<u16> = gen::supported_numbers().to_vec();
    let nums2 = nums.clone();
    let watch = Watch::new(p.workers);
    let sup = watch.supervise(20);
    let wt = watch.clone();
    let mut total = par::run(p.workers, move |w, nw, ctx| {
        let mut rng = Rng::derive(seed, "C02", w as u64);
        let nn = nums.len();
        for i in 0..per {
            if ctx.saturated() {
                ctx.count("stopped_early_after_20000_violations");
                break;
            }
            if i < 64 * 7 {
                    // MSM frames with one satellite at every mask position 1..=64 (and the lone signal at every
                    // position): masks that are a single bit, including the last one
                    let pos = (i % 64) as u32 + 1;
                    let c = (i / 64) as usize % 7;
                    let kind = 1 + ((w + i as usize) % 7) as u16;
                    let n = 1070 + 10 * c as u16 + kind;
                    if gen::is_supported(n) {
                        for sigpos in [2u32, 32, ((pos - 1) % 32) + 1] {
                            let mut b = crate::oracle::bits::BitBuf::new();
                            b.push(n as u128, 12);
                            b.push(0, 61);
                            b.push(1u128 << (64 - pos), 64);
                            b.push(1u128 << (32 - sigpos), 32);
                            b.push(1, 1);
                            for _ in 0..4 {
                                b.push(0, 50);
                            }
                            check_bytes(ctx, &crate::oracle::crc::frame(&b.into_bytes()), Some(&wt), "msm_frames_with_single_bit_masks");
                        }
                    }
            }
            match i % 16 {
                0 => {
                    // every 12-bit number with short payloads
                    let n = ((i / 16) as usize * nw + w) % 4096;
                    let len = *rng.pick(&[2usize, 2, 3, 4, 8, 30]);
                    let f = gen::any_number_frame(&mut rng, n as u16, len);
                    check_bytes(ctx, &f, Some(&wt), "frames_any_number_short_payload");
                }
                1 if i % 64_000 == 1 => {
                    let big = gen::long_stream(&mut rng, 270_000);
                    check_bytes(ctx, &big, Some(&wt), "streams_longer_than_64KiB");
                    let k = rng.usize_below(big.len() - 65_000);
                    check_bytes(ctx, &big[k..], Some(&wt), "streams_longer_than_64KiB");
                }
                1 if i % 64_000 == 33 => {
                    let (fl, _) = gen::flood_stream(&mut rng);
                    check_bytes(ctx, &fl, Some(&wt), "streams_with_a_flood_of_dead_candidates");
                }
                1 => {
                    let max = if i % 800 == 1 { 65_536 } else { 3_000 };
                    let (mut s, _) = gen::stream(&mut rng, max);
                    // splice hostile typed frames into the stream
                    if rng.bool() {
                        let n = nums[rng.usize_below(nn)];
                        let (f, _) = gen::wire_frame(&mut rng, n);
                        let at = rng.usize_below(s.len() + 1);
                        s.splice(at..at, f);
                    }
                    check_bytes(ctx, &s, Some(&wt), "streams");
                }
                2 => {
                    let len = match rng.below(4) {
                        0 => rng.usize_below(16),
                        1 => rng.usize_below(1200),
                        2 => 1029 + rng.usize_below(3000),
                        _ => rng.usize_below(200),
                    };
                    let mut b = rng.bytes(len);
                    if !b.is_empty() && rng.bool() {
                        b[0] = 0xD3;
                    }
                    check_bytes(ctx, &b, Some(&wt), "raw_random_bytes");
                }
                3 => {
                    let n = nums[((i / 16) as usize * nw + w) % nn];
                    if let Some(f) = gen::lib_frame(n, &mut rng) {
                        ctx.nontrivial(hash_bytes(&f));
                        check_bytes(ctx, &f, Some(&wt), "library_generated_frames");
                    }
                }
                _ => {
                    let n = nums[((i / 16) as usize * nw + w + (i % 16) as usize) % nn];
                    let (f, h) = gen::wire_frame(&mut rng, n);
                    ctx.count(h.name());
                    if f.len() >= 9 {
                        ctx.nontrivial(hash_bytes(&f));
                    }
                    if f.len() < 9 + gen::natural_len(n) && f.len() > 9 {
                        ctx.count("truncated_bodies");
                    }
                    if ctx.want_sample() && h != Hostile::None && i % 53 == 7 {
                        ctx.sample(|| json!({"number": n, "class": h.name(), "frame": hex_short(&f)}));
                    }
                    check_bytes(ctx, &f, Some(&wt), "hostile_typed_frames");
                }
            }
        }
    });
    watch.stop();
    let _ = sup;
    // minimum observations: every supported number decoded to a typed message at least once,
    // and every hostile class was exercised
    let missing: Vec<u16> = nums2.iter().copied().filter(|n| total.get(&format!("typed:{}", n)) == 0).collect();
    if !missing.is_empty() {
        total.inconclusive(format!("no typed decode observed for message numbers {:?}", missing));
    }
    for k in ["count_above_capacity", "msm_masks_over_64_cells", "msm_masks_zero_product", "bias_container_overflow", "utf8_invalid_text", "truncated_bodies", "outcome_corrupt", "outcome_not_supported", "outcome_typed"] {
        if total.get(k) == 0 {
            total.inconclusive(format!("class {} never exercised", k));
        }
    }
    Outcome {
        ctx: total,
        rule: "CRC-valid frames built without the library's encoder for every supported number (payload length classes x fills x structure-aware hostile patchers: counts above capacity, > 64 MSM cells, container-overflowing bias lists, invalid UTF-8, string lengths), all 4096 numbers with short payloads, streams up to 64 KiB, raw bytes, library-generated frames; oracle: no panic, <= len+1 next() calls, four documented outcomes, all float leaves finite, m == m; non-trivial = CRC-valid frame of a supported number with >= 3 payload bytes; distinct by frame hash".into(),
        exhaustive: false,
        extra: json!({"supported_numbers": nums2.len()}),
    }
}

mod fuzzwrap {
    include!("../fuzz/wrap.rs");
}

pub fn replay(_p: &Params, v: &Value) -> Outcome {
    if v["kind"] == "stack_probe" {
        // a case of the stack-discipline stage (stack overflow or suspected hang): run that case again
        let q = Params { prop: _p.prop.clone(), thorough: _p.thorough, seed: v["seed"].as_u64().unwrap_or(_p.seed), profile: _p.profile.clone(), workers: _p.workers };
        return rtcm_verif_core::framing::stack_probe(&q, v["case"].as_str());
    }
    let mut ctx = Ctx::new(0);
    let mut b = unhex(v["hex"].as_str().unwrap_or(""));
    if v["kind"] == "fuzz_input" {
        // raw libFuzzer artifact: convert to the frame it stands for
        match fuzzwrap::wrap(&b) {
            Some(f) => b = f,
            None => {
                ctx.inconclusive("fuzz artifact too short to stand for a frame".into());
                return Outcome { ctx, rule: "replay of a fuzz artifact".into(), exhaustive: false, extra: json!({}) };
            }
        }
    }
    check_bytes(&mut ctx, &b, None, "replay");
    Outcome { ctx, rule: "replay of one recorded input".into(), exhaustive: false, extra: json!({}) }
}
