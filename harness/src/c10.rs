//! C10: MSM satellite, signal and cell masks follow the standard for any input order.
//! Frames are written by the reference bit writer from msm_ref(S, G, C) -- the library's
//! encoder is not involved in building them.

use crate::codec::{build, decode};
use crate::gen;
use crate::mon::{hex, hex_short, Ctx};
use crate::oracle::layout::{self, is_msm, msm_constellation, msm_kind};
use crate::oracle::msm::{msm_ref, MsmRef};
use crate::oracle::{bits, crc, sig};
use crate::par;
use crate::rng::{mix, Rng};
use crate::vtree::{self, V};
use crate::{Outcome, Params};
use rtcm_rs::prelude::*;
use serde_json::{json, Value};

pub fn sat_widths(kind: u16) -> &'static [usize] {
    match kind {
        1 | 2 | 3 => &[10],
        4 | 6 => &[8, 10],
        _ => &[8, 4, 10, 14],
    }
}
pub fn sig_widths(kind: u16) -> &'static [usize] {
    match kind {
        1 => &[15],
        2 => &[22, 4, 1],
        3 => &[15, 22, 4, 1],
        4 => &[15, 22, 4, 1, 6],
        5 => &[15, 22, 4, 1, 6, 15],
        6 => &[20, 24, 10, 1, 10],
        _ => &[20, 24, 10, 1, 10, 15],
    }
}

/// reference-built MSM frame for number n with masks from r and random field bits
pub fn msm_frame(rng: &mut Rng, n: u16, r: &MsmRef) -> Vec<u8> {
    let kind = msm_kind(n);
    let mut b = bits::BitBuf::new();
    b.push(n as u128, 12);
    b.push(rng.u64() as u128, 61);
    debug_assert_eq!(b.nbits, layout::MSM_SAT_MASK_BIT);
    b.push(r.sat_mask as u128, 64);
    b.push(r.sig_mask as u128, 32);
    for &c in &r.cell_mask_bits {
        b.push_bit(c);
    }
    for &w in sat_widths(kind) {
        for _ in 0..r.sats.len() {
            b.push(rng.u64() as u128, w);
        }
    }
    for &w in sig_widths(kind) {
        for _ in 0..r.cells.len() {
            b.push(rng.u64() as u128, w);
        }
    }
    crc::frame(&b.into_bytes())
}

pub fn find_field_mut<'a>(v: &'a mut V, name: &str) -> Option<&'a mut V> {
    match v {
        V::Struct(_, fs) | V::StructVariant(_, _, _, fs) => {
            // two passes to satisfy the borrow checker
            let idx = fs.iter().position(|(k, _)| *k == name);
            if let Some(i) = idx {
                return Some(&mut fs[i].1);
            }
            for (_, x) in fs.iter_mut() {
                if let Some(r) = find_field_mut(x, name) {
                    return Some(r);
                }
            }
            None
        }
        V::Some(x) | V::Newtype(_, x) | V::NewtypeVariant(_, _, _, x) => find_field_mut(x, name),
        V::Seq(xs) | V::Tuple(xs) | V::TupleStruct(_, xs) | V::TupleVariant(_, _, _, xs) => {
            for x in xs.iter_mut() {
                if let Some(r) = find_field_mut(x, name) {
                    return Some(r);
                }
            }
            None
        }
        _ => None,
    }
}

pub fn seq_mut(v: &mut V) -> Option<&mut Vec<V>> {
    match v {
        V::Seq(xs) => Some(xs),
        V::Newtype(_, x) => seq_mut(x),
        _ => None,
    }
}

fn row_sat(v: &V) -> Option<u8> {
    if let V::Struct(_, fs) = v {
        for (k, x) in fs {
            if *k == "satellite_id" {
                if let V::U8(s) = x {
                    return Some(*s);
                }
            }
        }
    }
    None
}
fn row_sig(v: &V) -> Option<(u8, char)> {
    if let V::Struct(_, fs) = v {
        for (k, x) in fs {
            if *k == "signal_id" {
                if let V::TupleStruct(_, t) = x {
                    if let (V::U8(b), V::Char(a)) = (&t[0], &t[1]) {
                        return Some((*b, *a));
                    }
                }
            }
        }
    }
    None
}
fn set_row_sat(v: &mut V, s: u8) {
    if let V::Struct(_, fs) = v {
        for (k, x) in fs.iter_mut() {
            if *k == "satellite_id" {
                *x = V::U8(s);
            }
        }
    }
}
fn set_row_sig(v: &mut V, b: u8, a: char) {
    if let V::Struct(_, fs) = v {
        for (k, x) in fs.iter_mut() {
            if *k == "signal_id" {
                if let V::TupleStruct(_, t) = x {
                    t[0] = V::U8(b);
                    t[1] = V::Char(a);
                }
            }
        }
    }
}

struct Case<'a> {
    n: u16,
    s: &'a [u8],
    g: &'a [u8],
    c: &'a [(u8, u8)],
}

fn replay_of(case: &Case, seed: u64) -> Value {
    json!({"kind":"msm","number":case.n,"sats":case.s,"sigs":case.g,"cells":case.c.iter().map(|x| vec![x.0, x.1]).collect::<Vec<_>>(),"seed":seed.to_string()})
}

const FAULTS: [&str; 13] = ["cell_overwritten_by_copy_of_another", "all_cells_removed", "all_satellite_rows_removed", "satellite_0", "satellite_above_64", "unrecognised_signal", "duplicate_satellite", "duplicate_cell", "satellite_without_cell", "cell_without_satellite", "satellite_row_renamed", "cells_of_satellite_renamed", "more_than_64_mask_cells"];

fn expected_error(fault: &str) -> &'static str {
    match fault {
        "satellite_0" | "satellite_above_64" => "InvalidSatelliteId",
        "unrecognised_signal" => "InvalidSignalId",
        "duplicate_satellite" => "DuplicateSatellite",
        "duplicate_cell" | "cell_overwritten_by_copy_of_another" => "DuplicateSatelliteSignal",
        "satellite_without_cell" | "cell_without_satellite" | "satellite_row_renamed" | "cells_of_satellite_renamed" | "all_cells_removed" | "all_satellite_rows_removed" => "SatelliteMismatch",
        _ => "InvalidSatelliteSignalCount",
    }
}

/// run one (n, S, G, C) case; `perms` permutations; fault injection once per class
fn check_case(ctx: &mut Ctx, rng: &mut Rng, case: &Case, perms: usize, case_seed: u64) {
    let n = case.n;
    let cidx = msm_constellation(n);
    let r = msm_ref(case.s, case.g, case.c);
    let mut frng = Rng::new(case_seed);
    let f = msm_frame(&mut frng, n, &r);
    ctx.eval();
    ctx.count_dyn(format!("cases:msm{}", msm_kind(n)));
    let rp = || replay_of(case, case_seed);
    let d = match decode(&f) {
        Ok(Some(d)) => d,
        Ok(None) => {
            ctx.violation("C10.reference_frame_rejected".into(), "C10.reference_frame_rejected", format!("frame rejected: {}", hex_short(&f)), rp());
            return;
        }
        Err(_) => {
            ctx.count("decode_panics_left_to_C02");
            return;
        }
    };
    if d.number() != Some(n) {
        ctx.violation(
            format!("C10.decodes|{}", crate::framing::msg_class(&d).split('(').next().unwrap_or("")),
            "C10.decodes",
            format!("reference-built MSM frame {} (|S|={}, |G|={}, |C|={}) decodes to {}; frame={}", n, r.sats.len(), r.sigs.len(), r.cells.len(), crate::framing::msg_class(&d), hex_short(&f)),
            rp(),
        );
        return;
    }
    let mut v = match vtree::to_v(&d) {
        Ok(v) => v,
        Err(e) => {
            ctx.inconclusive(format!("serialize failed: {}", e.0));
            return;
        }
    };
    // (1) decoded order: ascending satellites; row-major cells with SigRef descriptors
    let sats: Vec<u8> = find_field_mut(&mut v, "satellite_data").and_then(seq_mut).map(|xs| xs.iter().filter_map(row_sat).collect()).unwrap_or_default();
    let cells: Vec<(u8, (u8, char))> = find_field_mut(&mut v, "signal_data").and_then(seq_mut).map(|xs| xs.iter().filter_map(|x| Some((row_sat(x)?, row_sig(x)?))).collect()).unwrap_or_default();
    let exp_cells: Vec<(u8, (u8, char))> = r.cells.iter().map(|&(s, p)| (s, sig::pos_to_sig(cidx, p).unwrap_or((0, '?')))).collect();
    if sats != r.sats {
        ctx.violation("C10.decoded_satellites".into(), "C10.decoded_satellites", format!("msg {}: decoded satellites {:?}, mask says {:?}", n, sats, r.sats), rp());
        return;
    }
    if cells != exp_cells {
        ctx.violation("C10.decoded_cells".into(), "C10.decoded_cells", format!("msg {}: decoded cells {:?}, masks say {:?}", n, cells, exp_cells), rp());
        return;
    }
    // frames in which a listed satellite or signal has no cell at all are legal on the wire (the decoder accepts
    // them) but have no message form the encoder takes: they are judged on the decoded lists only
    let cover = r.sats.iter().all(|s| r.cells.iter().any(|c| c.0 == *s)) && r.sigs.iter().all(|g| r.cells.iter().any(|c| c.1 == *g));
    if !cover {
        ctx.count("frames_with_an_empty_row_or_column_decode_only");
        ctx.nontrivial(mix(case_seed, 0xE0 ^ n as u64));
        return;
    }
    // (2) permutations re-encode to the identical frame
    let mut h = mix(case_seed, n as u64);
    for pi in 0..perms {
        ctx.eval();
        let mut pv = v.clone();
        if pi > 0 {
            // decoder order is the sorted order; besides reversal and full shuffles also the
            // "almost sorted" inputs: one adjacent transposition, one element moved
            fn almost(xs: &mut Vec<V>, rng: &mut Rng, mode: usize) {
                let n = xs.len();
                match mode {
                    0 => xs.reverse(),
                    1 if n > 1 => {
                        let a = rng.usize_below(n - 1);
                        xs.swap(a, a + 1);
                    }
                    2 if n > 2 => {
                        let a = rng.usize_below(n);
                        let e = xs.remove(a);
                        let b = rng.usize_below(n);
                        xs.insert(b, e);
                    }
                    3 => {}
                    // orders that look sorted under another key: (satellite, band, attribute) as in RINEX observation
                    // codes, (satellite, attribute, band), signal-major
                    6 => xs.sort_by_key(|x| (row_sat(x), row_sig(x))),
                    7 => xs.sort_by_key(|x| (row_sat(x), row_sig(x).map(|s| (s.1, s.0)))),
                    8 => xs.sort_by_key(|x| (row_sig(x), row_sat(x))),
                    _ => rng.shuffle(xs),
                }
            }
            let (ms, mc) = ((pi * 7 + 1) % 6, if pi % 4 == 3 { 6 + (pi / 4) % 3 } else { (pi * 5 + 2) % 6 });
            if let Some(xs) = find_field_mut(&mut pv, "satellite_data").and_then(seq_mut) {
                almost(xs, rng, ms);
            }
            if let Some(xs) = find_field_mut(&mut pv, "signal_data").and_then(seq_mut) {
                almost(xs, rng, if ms == 3 && mc == 3 { 1 } else { mc });
            }
            ctx.count("permuted_inputs");
        }
        h = mix(h, pi as u64);
        ctx.nontrivial(h);
        let m: Message = match vtree::from_v(&pv) {
            Ok(m) => m,
            Err(e) => {
                ctx.inconclusive(format!("permuted tree does not deserialize: {}", e.0));
                return;
            }
        };
        match build(&m) {
            Err(_) => {
                ctx.count("encode_panics_left_to_C09");
            }
            Ok(Err(e)) => {
                ctx.violation(format!("C10.valid_input_refused|{}", e), "C10.valid_input_refused", format!("msg {} with |S|={} |G|={} |C|={} (permutation {}) refused with {}", n, r.sats.len(), r.sigs.len(), r.cells.len(), pi, e), rp());
                return;
            }
            Ok(Ok(f2)) => {
                if f2 != f {
                    // say which part differs
                    let p2 = &f2[3..];
                    let what = if p2.len() * 8 < layout::MSM_CELL_MASK_BIT {
                        "short_frame"
                    } else if bits::read(p2, layout::MSM_SAT_MASK_BIT, 64) as u64 != r.sat_mask {
                        "satellite_mask"
                    } else if bits::read(p2, layout::MSM_SIG_MASK_BIT, 32) as u32 != r.sig_mask {
                        "signal_mask"
                    } else if (0..r.cell_mask_bits.len()).any(|i| p2.len() * 8 <= layout::MSM_CELL_MASK_BIT + i || bits::get_bit(p2, layout::MSM_CELL_MASK_BIT + i) != r.cell_mask_bits[i]) {
                        "cell_mask"
                    } else if f2.len() != f.len() {
                        "length"
                    } else {
                        "data_rows_order_or_content"
                    };
                    ctx.violation(
                        format!("C10.canonical_frame|{}|{}", what, if pi == 0 { "decoder_order" } else { "permuted" }),
                        "C10.canonical_frame",
                        format!("msg {} S={:?} G={:?} |C|={} permutation {}: encoder output differs from the reference frame in {}; expected {} got {}", n, r.sats, r.sigs, r.cells.len(), pi, what, hex_short(&f), hex_short(&f2)),
                        rp(),
                    );
                    return;
                }
            }
        }
    }
    // (3) single-fault injection => matching error
    let sat_tpl = find_field_mut(&mut v, "satellite_data").and_then(seq_mut).and_then(|xs| xs.first().cloned());
    let cell_tpl = find_field_mut(&mut v, "signal_data").and_then(seq_mut).and_then(|xs| xs.first().cloned());
    let (sat_tpl, cell_tpl) = match (sat_tpl, cell_tpl) {
        (Some(a), Some(b)) => (a, b),
        _ => return,
    };
    let table: Vec<u8> = sig::positions(cidx);
    for fault in FAULTS.iter() {
        let mut fv = v.clone();
        let mut applicable = true;
        {
            let unused: Vec<u8> = (1..=64u8).filter(|s| !r.sats.contains(s)).collect();
            let unused_sat: Option<u8> = if unused.is_empty() { None } else { Some(*rng.pick(&unused)) };
            match *fault {
                "all_cells_removed" => {
                    if let Some(xs) = find_field_mut(&mut fv, "signal_data").and_then(seq_mut) {
                        xs.clear();
                    }
                }
                "all_satellite_rows_removed" => {
                    if let Some(xs) = find_field_mut(&mut fv, "satellite_data").and_then(seq_mut) {
                        xs.clear();
                    }
                }
                "satellite_0" | "satellite_above_64" => {
                    let bad: u8 = if *fault == "satellite_0" { 0 } else { rng.range(65, 255) as u8 };
                    let victim = *rng.pick(&r.sats);
                    let mode = rng.below(3);
                    if mode != 1 {
                        if let Some(xs) = find_field_mut(&mut fv, "satellite_data").and_then(seq_mut) {
                            for x in xs.iter_mut() {
                                if row_sat(x) == Some(victim) {
                                    set_row_sat(x, bad);
                                }
                            }
                        }
                    }
                    if mode != 0 {
                        if let Some(xs) = find_field_mut(&mut fv, "signal_data").and_then(seq_mut) {
                            for x in xs.iter_mut() {
                                if row_sat(x) == Some(victim) {
                                    set_row_sat(x, bad);
                                }
                            }
                        }
                    }
                }
                "unrecognised_signal" => {
                    let (b, a) = loop {
                        let d = crate::mutate::random_sig(rng);
                        if sig::sig_to_pos(cidx, d.0, d.1).is_none() {
                            break d;
                        }
                    };
                    if let Some(xs) = find_field_mut(&mut fv, "signal_data").and_then(seq_mut) {
                        let k = rng.usize_below(xs.len());
                        set_row_sig(&mut xs[k], b, a);
                    }
                }
                "duplicate_satellite" => {
                    if let Some(xs) = find_field_mut(&mut fv, "satellite_data").and_then(seq_mut) {
                        if xs.len() >= 64 {
                            applicable = false;
                        } else {
                            let k = rng.usize_below(xs.len());
                            let e = xs[k].clone();
                            let at = rng.usize_below(xs.len() + 1);
                            xs.insert(at, e);
                        }
                    }
                }
                // the list keeps its length (also at the full 64 entries) and both masks stay as they were: the victim's
                // satellite and signal are still used by other cells
                "cell_overwritten_by_copy_of_another" => {
                    applicable = false;
                    if let Some(xs) = find_field_mut(&mut fv, "signal_data").and_then(seq_mut) {
                        let keys: Vec<(u8, (u8, char))> = xs.iter().filter_map(|x| Some((row_sat(x)?, row_sig(x)?))).collect();
                        if keys.len() == xs.len() && xs.len() >= 3 {
                            let victims: Vec<usize> = (0..keys.len()).filter(|&i| keys.iter().enumerate().any(|(j, k)| j != i && k.0 == keys[i].0) && keys.iter().enumerate().any(|(j, k)| j != i && k.1 == keys[i].1)).collect();
                            if !victims.is_empty() {
                                let v = *rng.pick(&victims);
                                let mut src = rng.usize_below(xs.len());
                                if src == v {
                                    src = (src + 1) % xs.len();
                                }
                                xs[v] = xs[src].clone();
                                applicable = true;
                            }
                        }
                    }
                }
                "duplicate_cell" => {
                    if let Some(xs) = find_field_mut(&mut fv, "signal_data").and_then(seq_mut) {
                        if xs.len() >= 64 {
                            applicable = false;
                        } else {
                            let k = rng.usize_below(xs.len());
                            let e = xs[k].clone();
                            let at = rng.usize_below(xs.len() + 1);
                            xs.insert(at, e);
                        }
                    }
                }
                "satellite_without_cell" => match unused_sat {
                    Some(s) if r.sats.len() < 64 => {
                        if let Some(xs) = find_field_mut(&mut fv, "satellite_data").and_then(seq_mut) {
                            let mut e = sat_tpl.clone();
                            set_row_sat(&mut e, s);
                            let at = rng.usize_below(xs.len() + 1);
                            xs.insert(at, e);
                        }
                    }
                    _ => applicable = false,
                },
                // same number of distinct satellites on both sides, but different sets
                "satellite_row_renamed" => match unused_sat {
                    Some(s) => {
                        let victim = *rng.pick(&r.sats);
                        if let Some(xs) = find_field_mut(&mut fv, "satellite_data").and_then(seq_mut) {
                            for x in xs.iter_mut() {
                                if row_sat(x) == Some(victim) {
                                    set_row_sat(x, s);
                                }
                            }
                        }
                    }
                    None => applicable = false,
                },
                "cells_of_satellite_renamed" => match unused_sat {
                    Some(s) => {
                        let victim = *rng.pick(&r.sats);
                        if let Some(xs) = find_field_mut(&mut fv, "signal_data").and_then(seq_mut) {
                            for x in xs.iter_mut() {
                                if row_sat(x) == Some(victim) {
                                    set_row_sat(x, s);
                                }
                            }
                        }
                    }
                    None => applicable = false,
                },
                "cell_without_satellite" => match unused_sat {
                    Some(s) if r.cells.len() < 64 => {
                        if let Some(xs) = find_field_mut(&mut fv, "signal_data").and_then(seq_mut) {
                            let mut e = cell_tpl.clone();
                            set_row_sat(&mut e, s);
                            let at = rng.usize_below(xs.len() + 1);
                            xs.insert(at, e);
                        }
                    }
                    _ => applicable = false,
                },
                _ => {
                    // more than 64 mask cells with everything else consistent: choose ns x ng > 64
                    // with ns, ng <= 64 cells in total (a cover: every satellite and signal used)
                    let ng_max = table.len();
                    let mut shapes: Vec<(usize, usize)> = Vec::new();
                    for ns in 2..=64usize {
                        for ng in 2..=ng_max {
                            if ns * ng > 64 && ns.max(ng) <= 64 {
                                shapes.push((ns, ng));
                            }
                        }
                    }
                    if shapes.is_empty() {
                        applicable = false;
                    } else {
                        let (ns, ng) = *rng.pick(&shapes);
                        let mut all: Vec<u8> = (1..=64).collect();
                        rng.shuffle(&mut all);
                        let ss: Vec<u8> = all[..ns].to_vec();
                        let mut t = table.clone();
                        rng.shuffle(&mut t);
                        let gg: Vec<u8> = t[..ng].to_vec();
                        // a cover with max(ns, ng) cells
                        let k = ns.max(ng);
                        let mut cc: Vec<(u8, u8)> = (0..k).map(|i| (ss[i % ns], gg[i % ng])).collect();
                        cc.sort();
                        cc.dedup();
                        let mut rows: Vec<V> = Vec::new();
                        for &s in &ss {
                            let mut e = sat_tpl.clone();
                            set_row_sat(&mut e, s);
                            rows.push(e);
                        }
                        let mut crow: Vec<V> = Vec::new();
                        for &(s, p) in &cc {
                            let mut e = cell_tpl.clone();
                            set_row_sat(&mut e, s);
                            let d = sig::pos_to_sig(cidx, p).unwrap();
                            set_row_sig(&mut e, d.0, d.1);
                            crow.push(e);
                        }
                        rng.shuffle(&mut rows);
                        rng.shuffle(&mut crow);
                        if let Some(xs) = find_field_mut(&mut fv, "satellite_data").and_then(seq_mut) {
                            *xs = rows;
                        }
                        if let Some(xs) = find_field_mut(&mut fv, "signal_data").and_then(seq_mut) {
                            *xs = crow;
                        }
                    }
                }
            }
        }
        if !applicable {
            ctx.count("fault_not_applicable_to_this_shape");
            continue;
        }
        ctx.eval();
        let m: Message = match vtree::from_v(&fv) {
            Ok(m) => m,
            Err(_) => {
                ctx.count("fault_tree_not_constructible");
                continue;
            }
        };
        ctx.count_dyn(format!("fault:{}", fault));
        let exp = expected_error(fault);
        match build(&m) {
            Err(_) => ctx.count("encode_panics_left_to_C09"),
            Ok(Ok(fr)) => {
                ctx.violation(
                    format!("C10.invalid_input_rejected|{}|encoded", fault),
                    "C10.invalid_input_rejected",
                    format!("msg {}: input with fault '{}' was encoded ({} bytes) instead of being refused with {}", n, fault, fr.len(), exp),
                    json!({"kind":"message","vtree":vtree::v_to_json(&fv),"fault":fault}),
                );
            }
            Ok(Err(e)) => {
                if e != exp {
                    ctx.violation(
                        format!("C10.invalid_input_rejected|{}|{}", fault, e),
                        "C10.invalid_input_rejected",
                        format!("msg {}: input with fault '{}' refused with {} instead of {}", n, fault, e, exp),
                        json!({"kind":"message","vtree":vtree::v_to_json(&fv),"fault":fault}),
                    );
                }
            }
        }
    }
    if ctx.want_sample() && ctx.evaluations % 577 < 40 {
        ctx.sample(|| json!({"number": n, "S": r.sats, "G_positions": r.sigs, "cells": r.cells.len(), "permutations": perms, "frame": hex_short(&f)}));
    }
}

/// all (S, G, C) with S within the first 3 satellites, G within the first 3 table signals,
/// every satellite and signal used by some cell
fn small_scopes(table: &[u8]) -> Vec<(Vec<u8>, Vec<u8>, Vec<(u8, u8)>)> {
    let mut out = Vec::new();
    let g3: Vec<u8> = table.iter().copied().take(3).collect();
    for sm in 1u32..8 {
        let s: Vec<u8> = (0..3).filter(|i| sm >> i & 1 == 1).map(|i| i as u8 + 1).collect();
        for gm in 1u32..(1 << g3.len()) {
            let g: Vec<u8> = (0..g3.len()).filter(|i| gm >> i & 1 == 1).map(|i| g3[i]).collect();
            let ncell = s.len() * g.len();
            for cm in 1u32..(1 << ncell) {
                let mut c: Vec<(u8, u8)> = Vec::new();
                for i in 0..ncell {
                    if cm >> i & 1 == 1 {
                        c.push((s[i / g.len()], g[i % g.len()]));
                    }
                }
                if s.iter().all(|x| c.iter().any(|y| y.0 == *x)) && g.iter().all(|x| c.iter().any(|y| y.1 == *x)) {
                    out.push((s.clone(), g.clone(), c));
                }
            }
        }
    }
    out
}

fn random_triple(rng: &mut Rng, table: &[u8]) -> (Vec<u8>, Vec<u8>, Vec<(u8, u8)>) {
    let tl = table.len();
    let (ns, ng) = match rng.below(8) {
        0 => (64, 1),
        1 => (1, tl),
        2 if tl >= 8 => (8, 8),
        3 => {
            let ng = rng.range(1, tl as i64) as usize;
            (64 / ng, ng)
        }
        _ => {
            let ng = rng.range(1, tl.min(8) as i64) as usize;
            (rng.range(1, (64 / ng) as i64) as usize, ng)
        }
    };
    let mut all: Vec<u8> = (1..=64).collect();
    rng.shuffle(&mut all);
    let s: Vec<u8> = all[..ns].to_vec();
    let mut t = table.to_vec();
    rng.shuffle(&mut t);
    let g: Vec<u8> = t[..ng].to_vec();
    // cover + random extra cells
    let mut c: Vec<(u8, u8)> = Vec::new();
    let k = ns.max(ng);
    for i in 0..k {
        c.push((s[i % ns], g[(i + rng.usize_below(ng)) % ng]));
    }
    for &gg in &g {
        if !c.iter().any(|x| x.1 == gg) {
            c.push((*rng.pick(&s), gg));
        }
    }
    let dens = rng.below(5);
    for &ss in &s {
        for &gg in &g {
            if rng.below(4) < dens {
                c.push((ss, gg));
            }
        }
    }
    c.sort();
    c.dedup();
    (s, g, c)
}

pub fn run(p: &Params) -> Outcome {
    let seed = p.seed;
    let n_random = p.size(1_500, 100_000) as usize;
    let perms = if p.thorough { 20 } else { 6 };
    let msm: Vec<u16> = gen::supported_numbers().iter().copied().filter(|n| is_msm(*n)).collect();
    let nm = msm.len();
    let msm2 = msm.clone();
    // job = (message number, slice of the work)
    let slices = if p.thorough { 32 } else { 2 };
    let mut total = par::run_queue(p.workers, nm * slices, move |j, ctx| {
        let n = msm[j / slices];
        let sl = j % slices;
        let mut rng = Rng::derive(seed, "C10", j as u64);
        let table = sig::positions(msm_constellation(n));
        if sl == 0 {
            let small = small_scopes(&table);
            for (i, (s, g, c)) in small.iter().enumerate() {
                let case = Case { n, s, g, c };
                check_case(ctx, &mut rng, &case, perms.min(4), mix(seed, (n as u64) << 20 | i as u64));
            }
            ctx.count_n("small_scope_triples", small.len() as u64);
        }
        for i in 0..(n_random / slices) {
            if ctx.saturated() {
                ctx.count("stopped_early_after_20000_violations");
                break;
            }
            let (s, g, c) = random_triple(&mut rng, &table);
            let case = Case { n, s: &s, g: &g, c: &c };
            check_case(ctx, &mut rng, &case, perms, mix(seed ^ 0xABCD, (j as u64) << 24 | i as u64));
            if i % 3 == 0 && (s.len() > 1 || g.len() > 1) {
                // the same masks with one satellite's row (or one signal's column, or both) emptied: listed in the
                // mask, no cell -- the rows behind it must still be read where they are
                let vs = *rng.pick(&s);
                let vg = *rng.pick(&g);
                let c2: Vec<(u8, u8)> = match rng.below(3) {
                    0 if s.len() > 1 => c.iter().copied().filter(|x| x.0 != vs).collect(),
                    1 if g.len() > 1 => c.iter().copied().filter(|x| x.1 != vg).collect(),
                    _ => c.iter().copied().filter(|x| x.0 != vs && x.1 != vg).collect(),
                };
                if !c2.is_empty() && c2.len() < c.len() {
                    let case = Case { n, s: &s, g: &g, c: &c2 };
                    check_case(ctx, &mut rng, &case, 0, mix(seed ^ 0xEEEE, (j as u64) << 24 | i as u64));
                }
            }
        }
    });
    total.exhaustive_parts.push("all (S,G,C) with S within satellites 1..3, G within the first 3 table signals, every satellite and signal used, for each of the MSM numbers".into());
    if total.get("frames_with_an_empty_row_or_column_decode_only") == 0 {
        total.inconclusive("no frame with an empty row or column was decoded".into());
    }
    for f in FAULTS.iter() {
        if total.get(&format!("fault:{}", f)) == 0 {
            total.inconclusive(format!("fault class {} never injected", f));
        }
    }
    if msm2.len() < 40 {
        total.inconclusive(format!("only {} MSM message numbers in the tree", msm2.len()));
    }
    Outcome {
        ctx: total,
        rule: "for every MSM number: exhaustive small scopes + random (S,G,C) up to 64 cells incl. 64x1, 1x|table|, 8x8; frame built by the reference writer from msm_ref with random field bits; frames whose masks list a satellite or signal without any cell (decode side only); oracle: decoded rows ascending / row-major with SigRef descriptors, every permutation of the satellite and cell lists re-encodes to the identical frame (masks reported separately), one injected fault per class => the matching error; non-trivial = each (case, permutation); distinct by hash".into(),
        exhaustive: false,
        extra: json!({"msm_numbers": msm2.len()}),
    }
}

pub fn replay(_p: &Params, v: &Value) -> Outcome {
    let mut ctx = Ctx::new(0);
    match v["kind"].as_str().unwrap_or("") {
        "msm" => {
            let n = v["number"].as_u64().unwrap_or(1074) as u16;
            let s: Vec<u8> = v["sats"].as_array().map(|a| a.iter().map(|x| x.as_u64().unwrap_or(1) as u8).collect()).unwrap_or_default();
            let g: Vec<u8> = v["sigs"].as_array().map(|a| a.iter().map(|x| x.as_u64().unwrap_or(2) as u8).collect()).unwrap_or_default();
            let c: Vec<(u8, u8)> = v["cells"].as_array().map(|a| a.iter().map(|x| (x[0].as_u64().unwrap_or(1) as u8, x[1].as_u64().unwrap_or(2) as u8)).collect()).unwrap_or_default();
            let cs: u64 = v["seed"].as_str().and_then(|s| s.parse().ok()).unwrap_or(1);
            let mut rng = Rng::new(cs ^ 99);
            check_case(&mut ctx, &mut rng, &Case { n, s: &s, g: &g, c: &c }, 20, cs);
        }
        "message" => {
            let fault = v["fault"].as_str().unwrap_or("");
            match vtree::json_to_v(&v["vtree"]).and_then(|t| vtree::from_v::<Message>(&t).ok()) {
                Some(m) => {
                    ctx.eval();
                    let exp = expected_error(fault);
                    match build(&m) {
                        Ok(Err(e)) if e == exp => {}
                        other => ctx.violation(format!("C10.invalid_input_rejected|{}|replay", fault), "C10.invalid_input_rejected", format!("fault {}: {:?}, expected {}", fault, other.map(|r| r.map(|f| hex(&f))).map_err(|p| p.site), exp), v.clone()),
                    }
                }
                None => ctx.inconclusive("tree does not deserialize".into()),
            }
        }
        k => ctx.inconclusive(format!("unknown replay kind {}", k)),
    }
    Outcome { ctx, rule: "replay".into(), exhaustive: false, extra: json!({}) }
}
