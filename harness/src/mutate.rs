//! Generic structural mutation of value trees (DESIGN 2.3).

use crate::gen::strings;
use crate::oracle::sig;
use crate::rng::Rng;
use crate::vtree::V;
use std::collections::HashMap;

type Ctxt = (&'static str, &'static str); // (struct name, field name)

#[derive(Clone, Copy, PartialEq, Eq, Debug)]
pub enum Site {
    Int,
    Float,
    Char,
    Str,
    Opt,
    Seq,
    Sig,
    Bool,
}

/// Examples of `Some(..)` contents and of sequence elements, learned from trees seen so
/// far, so that None -> Some and growing an empty list are possible without type knowledge.
#[derive(Default)]
pub struct Templates {
    some: HashMap<Ctxt, V>,
    elem: HashMap<Ctxt, V>,
}

fn strip_newtype(v: &V) -> &V {
    match v {
        V::Newtype(_, x) => strip_newtype(x),
        other => other,
    }
}

impl Templates {
    pub fn learn(&mut self, v: &V) {
        self.learn_at(v, ("", ""));
    }
    fn learn_at(&mut self, v: &V, c: Ctxt) {
        match v {
            V::Some(x) => {
                self.some.entry(c).or_insert_with(|| (**x).clone());
                self.learn_at(x, c);
            }
            V::Seq(xs) => {
                if let Some(f) = xs.first() {
                    self.elem.entry(c).or_insert_with(|| f.clone());
                }
                for x in xs {
                    self.learn_at(x, c);
                }
            }
            V::Newtype(_, x) | V::NewtypeVariant(_, _, _, x) => self.learn_at(x, c),
            V::Tuple(xs) | V::TupleStruct(_, xs) | V::TupleVariant(_, _, _, xs) => xs.iter().for_each(|x| self.learn_at(x, c)),
            V::Struct(n, fs) | V::StructVariant(n, _, _, fs) => fs.iter().for_each(|(k, x)| self.learn_at(x, (n, k))),
            _ => {}
        }
    }
}

/// pre-order walk over mutation sites; `f` may replace the node, children of the (new)
/// node are visited afterwards
pub fn walk_mut(v: &mut V, c: Ctxt, f: &mut dyn FnMut(&mut V, Site, Ctxt)) {
    let site = match v {
        V::Bool(_) => Some(Site::Bool),
        V::U8(_) | V::U16(_) | V::U32(_) | V::U64(_) | V::I8(_) | V::I16(_) | V::I32(_) | V::I64(_) => Some(Site::Int),
        V::F32(_) | V::F64(_) => Some(Site::Float),
        V::Char(_) => Some(Site::Char),
        V::Str(_) => Some(Site::Str),
        V::None | V::Some(_) => Some(Site::Opt),
        V::Seq(_) => Some(Site::Seq),
        V::TupleStruct(n, _) if *n == "SigId" => Some(Site::Sig),
        _ => None,
    };
    if let Some(s) = site {
        f(v, s, c);
    }
    match v {
        V::Some(x) | V::Newtype(_, x) | V::NewtypeVariant(_, _, _, x) => walk_mut(x, c, f),
        V::Seq(xs) | V::Tuple(xs) | V::TupleVariant(_, _, _, xs) => xs.iter_mut().for_each(|x| walk_mut(x, c, f)),
        V::TupleStruct(n, xs) => {
            if *n != "SigId" {
                xs.iter_mut().for_each(|x| walk_mut(x, c, f))
            }
        }
        V::Struct(n, fs) | V::StructVariant(n, _, _, fs) => {
            let n = *n;
            fs.iter_mut().for_each(|(k, x)| walk_mut(x, (n, k), f))
        }
        _ => {}
    }
}

pub fn count_sites(v: &mut V) -> usize {
    let mut n = 0;
    walk_mut(v, ("", ""), &mut |_, _, _| n += 1);
    n
}

fn int_bounds(v: &V) -> (i128, i128) {
    match v {
        V::U8(_) => (0, u8::MAX as i128),
        V::U16(_) => (0, u16::MAX as i128),
        V::U32(_) => (0, u32::MAX as i128),
        V::U64(_) => (0, u64::MAX as i128),
        V::I8(_) => (i8::MIN as i128, i8::MAX as i128),
        V::I16(_) => (i16::MIN as i128, i16::MAX as i128),
        V::I32(_) => (i32::MIN as i128, i32::MAX as i128),
        V::I64(_) => (i64::MIN as i128, i64::MAX as i128),
        _ => (0, 0),
    }
}
fn int_get(v: &V) -> i128 {
    match v {
        V::U8(x) => *x as i128,
        V::U16(x) => *x as i128,
        V::U32(x) => *x as i128,
        V::U64(x) => *x as i128,
        V::I8(x) => *x as i128,
        V::I16(x) => *x as i128,
        V::I32(x) => *x as i128,
        V::I64(x) => *x as i128,
        _ => 0,
    }
}
fn int_set(v: &mut V, n: i128) {
    let (lo, hi) = int_bounds(v);
    let n = n.clamp(lo, hi);
    match v {
        V::U8(x) => *x = n as u8,
        V::U16(x) => *x = n as u16,
        V::U32(x) => *x = n as u32,
        V::U64(x) => *x = n as u64,
        V::I8(x) => *x = n as i8,
        V::I16(x) => *x = n as i16,
        V::I32(x) => *x = n as i32,
        V::I64(x) => *x = n as i64,
        _ => {}
    }
}

/// numbers that mean something in the application domain (time periods, week numbers, leap
/// seconds, table sizes, round decimals): special-casing happens at these
pub const DOMAIN_NUMBERS: &[f64] = &[
    604800.0, 604799.0, 302400.0, 86400.0, 86399.0, 43200.0, 3600.0, 1800.0, 900.0, 600.0, 300.0, 60.0, 30.0, 15.0, 10.0, 7.0, 24.0, 12.0, 100.0, 1000.0, 1.0e4, 1.0e5, 1.0e6, 1.0e7,
    604800000.0, 86400000.0, 1023.0, 1024.0, 2047.0, 2048.0, 4095.0, 4096.0, 8191.0, 8192.0, 18.0, 19.0, 37.0, 1980.0, 2000.0, 1996.0, 1461.0, 365.0, 366.0, 360.0, 180.0, 90.0, 299792.458, 299792458.0,
    6378137.0, 6356752.3142, 20200000.0, 26560000.0, 42164000.0, 0.5, 0.25, 0.1, 0.01, 0.001, 0.0001, 1.0, 2.0, 5.0,
];

/// number of numeric leaves (pre-order)
pub fn count_numeric(v: &mut V) -> usize {
    let mut n = 0;
    walk_mut(v, ("", ""), &mut |_, s, _| {
        if s == Site::Int || s == Site::Float {
            n += 1
        }
    });
    n
}

/// push the `which`-th numeric leaf (pre-order) to the top or the bottom of its carrier type: the usual way a
/// message comes to be refused part-way through encoding
pub fn extreme_leaf(v: &mut V, which: usize, high: bool) {
    let mut n = 0;
    walk_mut(v, ("", ""), &mut |x, s, _| {
        if s == Site::Int || s == Site::Float {
            if n == which {
                match x {
                    V::F32(f) => *f = if high { 3.0e38 } else { -3.0e38 },
                    V::F64(f) => *f = if high { 1.0e300 } else { -1.0e300 },
                    _ => {
                        let (lo, hi) = int_bounds(x);
                        int_set(x, if high { hi } else { lo });
                    }
                }
            }
            n += 1;
        }
    });
}

/// move the `which`-th numeric leaf (pre-order) to a neighbouring value: +1 for integers, a few per cent for reals
pub fn nudge_leaf(v: &mut V, which: usize) {
    let mut n = 0;
    walk_mut(v, ("", ""), &mut |x, s, _| {
        if s == Site::Int || s == Site::Float {
            if n == which {
                match x {
                    V::F32(f) => *f = if *f == 0.0 { 1.0 } else { *f * 1.03125 },
                    V::F64(f) => *f = if *f == 0.0 { 1.0 } else { *f * 1.03125 },
                    _ => {
                        let (lo, hi) = int_bounds(x);
                        let c = int_get(x);
                        int_set(x, if c < hi { c + 1 } else { lo.max(c - 1) });
                    }
                }
            }
            n += 1;
        }
    });
}

pub fn mut_int(v: &mut V, rng: &mut Rng) {
    let (lo, hi) = int_bounds(v);
    let cur = int_get(v);
    let span = (hi - lo) as u128 + 1;
    if rng.chance(1, 10) {
        let d = *rng.pick(DOMAIN_NUMBERS) as i128 + rng.range(-1, 1) as i128;
        int_set(v, d);
        return;
    }
    let n = match rng.below(14) {
        0 => 0,
        1 => 1,
        2 => lo,
        3 => hi,
        4 => hi - 1,
        5 => lo + 1,
        6 => 1i128 << rng.below(63),
        7 => cur + 1,
        8 => cur - 1,
        9 => cur + rng.range(-8, 8) as i128,
        10 | 11 => rng.range(0, 70) as i128,
        12 => hi / 2 + rng.range(-2, 2) as i128,
        _ => lo + (((rng.u64() as u128) << 64 | rng.u64() as u128) % span) as i128,
    };
    int_set(v, n);
}

fn ulps32(x: f32, n: i32) -> f32 {
    if !x.is_finite() || x == 0.0 {
        return x;
    }
    // n steps in the magnitude, sign kept (the earlier version added n to the raw bit pattern, which for negative
    // numbers includes the sign bit and clamped them to -f32::MAX)
    let b = x.to_bits();
    let mag = (b & 0x7FFF_FFFF) as i64;
    let nm = (mag + n as i64).clamp(0, 0x7F7F_FFFF);
    f32::from_bits((b & 0x8000_0000) | nm as u32)
}

fn ulps64(x: f64, n: i64) -> f64 {
    if !x.is_finite() || x == 0.0 {
        return x;
    }
    let b = x.to_bits();
    let mag = (b & 0x7FFF_FFFF_FFFF_FFFF) as i64;
    let nm = (mag + n).clamp(0, 0x7FEF_FFFF_FFFF_FFFF);
    f64::from_bits((b & 0x8000_0000_0000_0000) | nm as u64)
}

pub fn mut_float(v: &mut V, rng: &mut Rng) {
    let (x, is32) = match v {
        V::F32(x) => (*x as f64, true),
        V::F64(x) => (*x, false),
        _ => return,
    };
    let y: f64 = match rng.below(27) {
        24 | 25 => {
            let d = *rng.pick(DOMAIN_NUMBERS);
            let d = if rng.bool() { d } else { -d };
            match rng.below(3) {
                0 => d,
                1 => d + (rng.f64_unit() - 0.5) * 1e-3,
                _ => d * (1.0 + (rng.f64_unit() - 0.5) * 1e-9),
            }
        }
        26 => x + *rng.pick(DOMAIN_NUMBERS),
        0 => 0.0,
        1 => -0.0,
        2 => x * (1.0 + (2.0f64).powi(-(rng.range(8, 40) as i32))),
        3 => x + (rng.f64_unit() - 0.5) * (10.0f64).powi(rng.range(-9, -1) as i32),
        4 => {
            if is32 {
                ulps32(x as f32, rng.range(-4, 4) as i32) as f64
            } else {
                ulps64(x, rng.range(-4, 4))
            }
        }
        5 | 6 => (rng.f64_unit() - 0.5) * 2.0 * (10.0f64).powi(rng.range(-12, 12) as i32),
        7 => 1e30,
        8 => -1e30,
        9 => {
            if is32 {
                f32::MAX as f64
            } else {
                f64::MAX
            }
        }
        10 => {
            if is32 {
                -(f32::MAX as f64)
            } else {
                -f64::MAX
            }
        }
        11 => f64::NAN,
        12 => f64::INFINITY,
        13 => f64::NEG_INFINITY,
        14 => x.round(),
        15 => -x,
        16 => x * 2.0,
        17 => x / 2.0,
        18 => rng.range(-40, 40) as f64 + 0.5,
        19 => f64::MIN_POSITIVE * rng.f64_unit(),
        20 => x + 1.0,
        21 => x - 1.0,
        22 => (rng.range(-3_000_000, 3_000_000) as f64) * (10.0f64).powi(rng.range(-8, 3) as i32),
        _ => x + (rng.f64_unit() - 0.5) * x.abs().max(1e-12) * 1e-3,
    };
    match v {
        V::F32(t) => *t = y as f32,
        V::F64(t) => *t = y,
        _ => {}
    }
}

/// small perturbation that keeps the value near where it was (off-grid but in range)
/// every real leaf moved by one unit in the last place (f32) / one to three (f64); `dir` 0 = random sign per leaf,
/// 1 = all up, 2 = all down.  Far below half a resolution step of every field in the tree (f32 fields have at most
/// 20 bits, f64 fields at most 38), so the encoding may not change.
pub fn ulp_all_floats(v: &mut V, rng: &mut Rng, dir: u32) -> usize {
    let mut n = 0;
    walk_mut(v, ("", ""), &mut |node, site, _| {
        if site == Site::Float {
            let up = match dir {
                1 => true,
                2 => false,
                _ => rng.bool(),
            };
            match node {
                V::F32(x) if x.is_finite() => {
                    *x = ulps32(*x, if up { 1 } else { -1 });
                    n += 1;
                }
                V::F64(x) if x.is_finite() => {
                    let k = rng.range(1, 3);
                    *x = ulps64(*x, if up { k } else { -k });
                    n += 1;
                }
                _ => {}
            }
        }
    });
    n
}

pub fn nudge_float(v: &mut V, rng: &mut Rng) {
    match v {
        V::F32(x) => {
            if x.is_finite() {
                *x = match rng.below(3) {
                    0 => ulps32(*x, rng.range(-3, 3) as i32),
                    1 => *x + (rng.f64_unit() as f32 - 0.5) * 1e-4,
                    _ => *x * (1.0 + (rng.f64_unit() as f32 - 0.5) * 1e-5),
                }
            }
        }
        V::F64(x) => {
            if x.is_finite() {
                *x = match rng.below(3) {
                    0 => ulps64(*x, rng.range(-3, 3)),
                    1 => *x + (rng.f64_unit() - 0.5) * 1e-7,
                    _ => *x * (1.0 + (rng.f64_unit() - 0.5) * 1e-9),
                }
            }
        }
        _ => {}
    }
}

const ATTRS: &[u8] = b"CPWSLXIQABZDYMNE0123456789cx ";

/// a descriptor that is NOT in any table but collides with a recognised one under a
/// careless comparison: attribute with the same low byte / low 7 bits / other case /
/// full-width form, or band with the same low bits
pub fn alias_sig(rng: &mut Rng) -> (u8, char) {
    loop {
        let c = rng.usize_below(7);
        let pos = rng.range(1, 32) as u8;
        if let Some((b, a)) = sig::pos_to_sig(c, pos) {
            let au = a as u32;
            let cand: (u32, u32) = match rng.below(8) {
                0 => (b as u32, au + 0x100 * rng.range(1, 0xFF) as u32),
                1 => (b as u32, au + 0x10000 * rng.range(1, 0x10) as u32),
                2 => (b as u32, au + 0x80),
                3 => (b as u32, au ^ 0x20),               // other case
                4 => (b as u32, 0xFF21 + (au - 0x41)),    // full-width capital letter
                5 => (b as u32 + 8 * rng.range(1, 30) as u32, au),
                6 => (b as u32 + 0x80, au),
                _ => (b as u32 + 16, au),
            };
            if cand.0 <= 255 {
                if let Some(ch) = char::from_u32(cand.1) {
                    return (cand.0 as u8, ch);
                }
            }
        }
    }
}

pub fn random_sig(rng: &mut Rng) -> (u8, char) {
    if rng.chance(1, 5) {
        return alias_sig(rng);
    }
    match rng.below(10) {
        0..=5 => {
            // a descriptor recognised by some constellation
            loop {
                let c = rng.usize_below(7);
                let pos = rng.range(1, 32) as u8;
                if let Some(s) = sig::pos_to_sig(c, pos) {
                    return s;
                }
            }
        }
        6 | 7 => (rng.range(0, 9) as u8, *rng.pick(ATTRS) as char),
        8 => (rng.u8(), char::from_u32(rng.range(0, 255) as u32).unwrap_or('C')),
        _ => (rng.u8(), char::from_u32(rng.range(0x100, 0x2FFF) as u32).unwrap_or('C')),
    }
}

pub fn mut_sig(v: &mut V, rng: &mut Rng) {
    if let V::TupleStruct(_, xs) = v {
        if xs.len() == 2 {
            let (b, a) = random_sig(rng);
            xs[0] = V::U8(b);
            xs[1] = V::Char(a);
        }
    }
}

fn mut_seq(xs: &mut Vec<V>, rng: &mut Rng, tpl: &Templates, c: Ctxt) -> &'static str {
    let n = xs.len();
    match rng.below(14) {
        0 if n > 1 => {
            rng.shuffle(xs);
            "seq_shuffle"
        }
        1 if n > 1 => {
            xs.reverse();
            "seq_reverse"
        }
        2 if n > 1 => {
            let k = rng.usize_below(n);
            xs.rotate_left(k);
            "seq_rotate"
        }
        3 if n > 0 => {
            let k = rng.usize_below(n);
            xs.remove(k);
            "seq_drop"
        }
        4 if n > 0 => {
            let k = rng.usize_below(n);
            let e = xs[k].clone();
            let at = rng.usize_below(n + 1);
            xs.insert(at, e);
            "seq_duplicate"
        }
        5 => {
            xs.clear();
            "seq_clear"
        }
        6 if n > 0 => {
            let k = rng.usize_below(n);
            xs.truncate(k);
            "seq_truncate"
        }
        7 if n > 1 => {
            let a = rng.usize_below(n);
            let b = rng.usize_below(n);
            xs.swap(a, b);
            "seq_swap"
        }
        8 if n > 1 => {
            // almost sorted: one adjacent transposition
            let a = rng.usize_below(n - 1);
            xs.swap(a, a + 1);
            "seq_adjacent_swap"
        }
        9 if n > 2 => {
            // almost sorted: one element moved somewhere else
            let a = rng.usize_below(n);
            let e = xs.remove(a);
            let b = rng.usize_below(n);
            xs.insert(b, e);
            "seq_move_one"
        }
        _ => {
            // grow: by clones of existing elements or of a learned template, to typical capacities
            let target = *rng.pick(&[1usize, 2, 3, 4, 7, 8, 15, 16, 30, 31, 32, 33, 39, 40, 60, 61, 62, 63, 64, 65, 92, 93, 94, 96, 124, 127, 128, 129, 155, 186, 248, 255, 256, 257, 260, 287, 288, 300, 372, 389, 390, 391]);
            let tplv = xs.first().cloned().or_else(|| tpl.elem.get(&c).cloned());
            if let Some(t) = tplv {
                // half of the time exact clones (many entries with the same key), otherwise
                // the first integer of each clone is varied so that keys differ
                let vary = rng.bool();
                while xs.len() < target {
                    let mut e = if xs.is_empty() || rng.bool() { t.clone() } else { xs[rng.usize_below(xs.len())].clone() };
                    // vary the clone a little so that keys differ
                    let mut cnt = 0;
                    walk_mut(&mut e, c, &mut |node, site, _| {
                        if vary && site == Site::Int && cnt == 0 {
                            int_set(node, rng.range(0, 70) as i128);
                            cnt += 1;
                        }
                    });
                    xs.push(e);
                }
                "seq_grow"
            } else {
                "seq_grow_no_template"
            }
        }
    }
}

/// Replace every `satellite_id`-like u8 field equal to a by b (keeps MSM satellite rows and
/// cell rows consistent).
pub fn remap_satellite(v: &mut V, rng: &mut Rng) -> bool {
    let mut ids: Vec<u8> = Vec::new();
    walk_mut(v, ("", ""), &mut |node, site, c| {
        if site == Site::Int && c.1.ends_with("satellite_id") {
            if let V::U8(x) = node {
                if !ids.contains(x) {
                    ids.push(*x);
                }
            }
        }
    });
    if ids.is_empty() {
        return false;
    }
    let a = *rng.pick(&ids);
    let b: u8 = match rng.below(8) {
        0 => 0,
        1 => 64,
        2 => 65,
        3 => 255,
        4 => 1,
        5 => *rng.pick(&ids), // collide with another satellite
        _ => rng.range(1, 64) as u8,
    };
    walk_mut(v, ("", ""), &mut |node, site, c| {
        if site == Site::Int && c.1.ends_with("satellite_id") {
            if let V::U8(x) = node {
                if *x == a {
                    *x = b;
                }
            }
        }
    });
    true
}

pub fn remap_signal(v: &mut V, rng: &mut Rng) -> bool {
    let mut sigs: Vec<(u8, char)> = Vec::new();
    walk_mut(v, ("", ""), &mut |node, site, _| {
        if site == Site::Sig {
            if let V::TupleStruct(_, xs) = node {
                if let (V::U8(b), V::Char(a)) = (&xs[0], &xs[1]) {
                    if !sigs.contains(&(*b, *a)) {
                        sigs.push((*b, *a));
                    }
                }
            }
        }
    });
    if sigs.is_empty() {
        return false;
    }
    let from = *rng.pick(&sigs);
    let to = if rng.chance(1, 4) { *rng.pick(&sigs) } else { random_sig(rng) };
    walk_mut(v, ("", ""), &mut |node, site, _| {
        if site == Site::Sig {
            if let V::TupleStruct(_, xs) = node {
                if xs[0] == V::U8(from.0) && xs[1] == V::Char(from.1) {
                    xs[0] = V::U8(to.0);
                    xs[1] = V::Char(to.1);
                }
            }
        }
    });
    true
}

fn mutate_site(node: &mut V, site: Site, c: Ctxt, rng: &mut Rng, tpl: &Templates) -> &'static str {
    match site {
        Site::Bool => {
            if let V::Bool(b) = node {
                *b = !*b;
            }
            "bool_flip"
        }
        Site::Int => {
            mut_int(node, rng);
            "int"
        }
        Site::Float => {
            mut_float(node, rng);
            "float"
        }
        Site::Char => {
            *node = V::Char(match rng.below(4) {
                0 => *rng.pick(ATTRS) as char,
                1 => char::from_u32(rng.range(0, 255) as u32).unwrap_or('x'),
                2 => '\0',
                _ => char::from_u32(rng.range(0x100, 0x10FFFF) as u32).unwrap_or('y'),
            });
            "char"
        }
        Site::Str => {
            *node = V::Str(strings::hostile_string(rng));
            "string"
        }
        Site::Opt => match node {
            V::None => {
                if let Some(t) = tpl.some.get(&c) {
                    *node = V::Some(Box::new(t.clone()));
                    "option_none_to_some"
                } else {
                    "option_no_template"
                }
            }
            _ => {
                *node = V::None;
                "option_some_to_none"
            }
        },
        Site::Seq => {
            if let V::Seq(xs) = node {
                mut_seq(xs, rng, tpl, c)
            } else {
                "seq?"
            }
        }
        Site::Sig => {
            mut_sig(node, rng);
            "signal_id"
        }
    }
}

/// make two numeric leaves related: equal, off by one, swapped, or summing to a round number
pub fn relate_two_leaves(v: &mut V, rng: &mut Rng) -> bool {
    let mut idx: Vec<usize> = Vec::new();
    let mut vals: Vec<f64> = Vec::new();
    let mut i = 0usize;
    walk_mut(v, ("", ""), &mut |node, site, _| {
        if site == Site::Int || site == Site::Float {
            idx.push(i);
            vals.push(match node {
                V::F32(x) => *x as f64,
                V::F64(x) => *x,
                other => int_get(other) as f64,
            });
        }
        i += 1;
    });
    if idx.len() < 2 {
        return false;
    }
    let a = rng.usize_below(idx.len());
    let mut b = rng.usize_below(idx.len());
    if a == b {
        b = (b + 1) % idx.len();
    }
    let (va, vb) = (vals[a], vals[b]);
    let (new_a, new_b): (f64, f64) = match rng.below(6) {
        0 => (va, va),
        1 => (va, va + 1.0),
        2 => (va, va - 1.0),
        3 => (vb, va),
        4 => (va, -va),
        _ => (va, *rng.pick(DOMAIN_NUMBERS) - va),
    };
    let (ia, ib) = (idx[a], idx[b]);
    let mut i = 0usize;
    walk_mut(v, ("", ""), &mut |node, site, _| {
        if site == Site::Int || site == Site::Float {
            let nv = if i == ia { Some(new_a) } else if i == ib { Some(new_b) } else { None };
            if let Some(nv) = nv {
                match node {
                    V::F32(x) => *x = nv as f32,
                    V::F64(x) => *x = nv,
                    other => {
                        if nv.is_finite() {
                            int_set(other, nv as i128)
                        }
                    }
                }
            }
        }
        i += 1;
    });
    true
}

/// Apply a random mutation strategy; returns labels of what was done.
/// composite nodes (structs, tuples, sequence elements) that have at least one numeric leaf below them
fn count_composites(v: &V) -> usize {
    let kids: Vec<&V> = match v {
        V::Some(x) | V::Newtype(_, x) | V::NewtypeVariant(_, _, _, x) => vec![&**x],
        V::Seq(xs) | V::Tuple(xs) | V::TupleVariant(_, _, _, xs) => xs.iter().collect(),
        V::TupleStruct(n, xs) if *n != "SigId" => xs.iter().collect(),
        V::Struct(_, fs) | V::StructVariant(_, _, _, fs) => fs.iter().map(|(_, x)| x).collect(),
        _ => Vec::new(),
    };
    let own = if matches!(v, V::Struct(..) | V::Tuple(..) | V::TupleStruct(..)) && !kids.is_empty() { 1 } else { 0 };
    own + kids.iter().map(|k| count_composites(k)).sum::<usize>()
}

fn zero_all_numeric(v: &mut V) {
    walk_mut(v, ("", ""), &mut |x, s, _| match s {
        Site::Int => int_set(x, 0),
        Site::Float => match x {
            V::F32(f) => *f = 0.0,
            V::F64(f) => *f = 0.0,
            _ => {}
        },
        _ => {}
    });
}

fn zero_nth_composite(v: &mut V, target: usize, seen: &mut usize) -> bool {
    let is_comp = matches!(v, V::Struct(..) | V::Tuple(..) | V::TupleStruct(..));
    if is_comp && !matches!(v, V::TupleStruct(n, _) if *n == "SigId") {
        if *seen == target {
            zero_all_numeric(v);
            return true;
        }
        *seen += 1;
    }
    match v {
        V::Some(x) | V::Newtype(_, x) | V::NewtypeVariant(_, _, _, x) => zero_nth_composite(x, target, seen),
        V::Seq(xs) | V::Tuple(xs) | V::TupleVariant(_, _, _, xs) => xs.iter_mut().any(|x| zero_nth_composite(x, target, seen)),
        V::TupleStruct(n, xs) if *n != "SigId" => xs.iter_mut().any(|x| zero_nth_composite(x, target, seen)),
        V::Struct(_, fs) | V::StructVariant(_, _, _, fs) => fs.iter_mut().any(|(_, x)| zero_nth_composite(x, target, seen)),
        _ => false,
    }
}

/// one whole element (a list entry, a grid point, a sub-structure) set to zero in all its numeric fields at once:
/// "nothing here" in the middle of populated data
pub fn zero_one_element(v: &mut V, rng: &mut Rng) -> bool {
    let n = count_composites(v);
    if n <= 1 {
        return false;
    }
    // never the root (that would be the all-zero message, which other generators cover)
    let target = 1 + rng.usize_below(n - 1);
    let mut seen = 0;
    zero_nth_composite(v, target, &mut seen)
}

pub fn mutate(v: &mut V, rng: &mut Rng, tpl: &Templates) -> Vec<&'static str> {
    let mut done: Vec<&'static str> = Vec::new();
    let strat = rng.below(24);
    match strat {
        22 | 23 => {
            if zero_one_element(v, rng) {
                done.push("zero_one_element");
            }
        }
        20 | 21 => {
            if relate_two_leaves(v, rng) {
                done.push("relate_two_leaves");
            }
        }
        0..=7 => {
            // 1..k random sites
            let n = count_sites(v);
            if n == 0 {
                return done;
            }
            let k = match rng.below(4) {
                0 | 1 => 1,
                2 => 2,
                _ => rng.range(3, 6) as usize,
            };
            for _ in 0..k {
                let n = count_sites(v);
                if n == 0 {
                    break;
                }
                let target = rng.usize_below(n);
                let mut i = 0;
                let mut lab = "";
                let mut hit = false;
                walk_mut(v, ("", ""), &mut |node, site, c| {
                    if i == target && !hit {
                        lab = mutate_site(node, site, c, rng, tpl);
                        hit = true;
                    }
                    i += 1;
                });
                done.push(lab);
            }
        }
        8 | 9 => {
            // permute every sequence
            walk_mut(v, ("", ""), &mut |node, site, _| {
                if site == Site::Seq {
                    if let V::Seq(xs) = node {
                        match rng.below(3) {
                            0 => rng.shuffle(xs),
                            1 => xs.reverse(),
                            _ => {
                                if xs.len() > 1 {
                                    let k = rng.usize_below(xs.len());
                                    xs.rotate_left(k)
                                }
                            }
                        }
                    }
                }
            });
            done.push("permute_all_sequences");
        }
        10 | 11 => {
            // one random sequence site mutated
            let mut seqs = 0;
            walk_mut(v, ("", ""), &mut |_, site, _| {
                if site == Site::Seq {
                    seqs += 1
                }
            });
            if seqs > 0 {
                let target = rng.usize_below(seqs);
                let mut i = 0;
                let mut lab = "";
                let mut hit = false;
                walk_mut(v, ("", ""), &mut |node, site, c| {
                    if site == Site::Seq {
                        if i == target && !hit {
                            lab = mutate_site(node, site, c, rng, tpl);
                            hit = true;
                        }
                        i += 1;
                    }
                });
                done.push(lab);
            }
        }
        12 | 13 => {
            if remap_satellite(v, rng) {
                done.push("remap_satellite");
            }
        }
        14 => {
            if remap_signal(v, rng) {
                done.push("remap_signal");
            }
        }
        15 | 16 | 17 => {
            // every float slightly off its grid
            walk_mut(v, ("", ""), &mut |node, site, _| {
                if site == Site::Float {
                    nudge_float(node, rng);
                }
            });
            done.push("nudge_all_floats");
        }
        18 => {
            // every string hostile
            walk_mut(v, ("", ""), &mut |node, site, _| {
                if site == Site::Str {
                    *node = V::Str(strings::hostile_string(rng));
                }
            });
            done.push("all_strings");
        }
        _ => {
            // one float to an extreme
            let mut fl = 0;
            walk_mut(v, ("", ""), &mut |_, site, _| {
                if site == Site::Float {
                    fl += 1
                }
            });
            if fl > 0 {
                let target = rng.usize_below(fl);
                let mut i = 0;
                walk_mut(v, ("", ""), &mut |node, site, _| {
                    if site == Site::Float {
                        if i == target {
                            mut_float(node, rng);
                        }
                        i += 1;
                    }
                });
                done.push("float");
            }
        }
    }
    if rng.chance(1, 6) {
        // combine with a permutation
        walk_mut(v, ("", ""), &mut |node, site, _| {
            if site == Site::Seq {
                if let V::Seq(xs) = node {
                    rng.shuffle(xs);
                }
            }
        });
        done.push("plus_shuffle");
    }
    done
}
