//! C20: serialising a message with serde and reading it back gives the same message.
//! Two independent self-describing data formats: serde_json::Value and the harness's VTree.

use crate::codec::decode;
use crate::gen::{self, strings};
use crate::mon::{guard, hex, Ctx};
use crate::mutate::{self, walk_mut, Site, Templates};
use crate::par;
use crate::rng::Rng;
use crate::vtree::{self, V};
use crate::{Outcome, Params};
use rtcm_rs::prelude::*;
use serde_json::{json, Value};

fn short(m: &Message) -> String {
    let s = vtree::debug_of(m);
    if s.len() > 500 {
        let mut e = 500;
        while !s.is_char_boundary(e) {
            e -= 1;
        }
        format!("{}...", &s[..e])
    } else {
        s
    }
}

fn observe(ctx: &mut Ctx, v: &V) {
    let mut vv = v.clone();
    walk_mut(&mut vv, ("", ""), &mut |node, site, c| match (site, &*node) {
        (Site::Str, V::Str(s)) => {
            if s.chars().any(|ch| ch as u32 > 0x7F) {
                ctx.count("messages_with_non_ascii_text");
            }
            if c.1 == "text_str" && s.len() >= 253 {
                ctx.count("utf8_text_at_byte_capacity");
            }
            if c.1 != "text_str" && s.chars().count() == 31 {
                ctx.count("descriptor_at_capacity");
            }
            if c.1 != "text_str" && s.chars().any(|ch| (0x80..=0xFF).contains(&(ch as u32))) {
                ctx.count("descriptor_with_latin1_high_half");
            }
        }
        (Site::Opt, V::None) => ctx.count("absent_optionals"),
        (Site::Seq, V::Seq(xs)) => {
            if [15usize, 31, 39, 60, 63, 64, 390, 7, 4].contains(&xs.len()) {
                ctx.count("lists_at_a_capacity");
            }
        }
        _ => {}
    });
}

pub fn check(ctx: &mut Ctx, m: &Message, origin: &'static str) {
    ctx.eval();
    ctx.count(origin);
    let n = m.number().map(|x| x as i64).unwrap_or(-1);
    // format 1: VTree
    let v = match guard(|| vtree::to_v(m)) {
        Ok(Ok(v)) => v,
        Ok(Err(e)) => {
            ctx.violation(format!("C20.serialize_fails|vtree|{}", n), "C20.serialize_fails", format!("serialising message {} failed: {}", n, e.0), json!({"kind":"debug","message":short(m)}));
            return;
        }
        Err(p) => {
            ctx.panic_violation("C20.no_panic", &p, "Serialize", json!({"kind":"debug","message":short(m)}));
            return;
        }
    };
    if vtree::has_nan(&v) {
        ctx.count("skipped_nan");
        return;
    }
    observe(ctx, &v);
    ctx.nontrivial(vtree::hash_v(&v));
    ctx.count_dyn(format!("round_trips:{}", n));
    let rp = || json!({"kind":"message","vtree":vtree::v_to_json(&v)});
    match guard(|| vtree::from_v::<Message>(&v)) {
        Ok(Ok(back)) => {
            if back != *m {
                ctx.violation(format!("C20.round_trip|vtree|{}", n), "C20.round_trip", format!("[{}] message {} -> value tree -> message differs: {} vs {}", origin, n, short(m), short(&back)), rp());
            }
        }
        Ok(Err(e)) => ctx.violation(format!("C20.deserialize_fails|vtree|{}", n), "C20.deserialize_fails", format!("[{}] message {}: its own serialisation is refused: {}", origin, n, e.0), rp()),
        Err(p) => ctx.panic_violation("C20.no_panic", &p, "Deserialize (vtree)", rp()),
    }
    // format 2: serde_json::Value (finite floats only)
    if vtree::has_nonfinite(&v) {
        ctx.count("json_skipped_nonfinite");
        return;
    }
    match guard(|| serde_json::to_value(m)) {
        Ok(Ok(j)) => match guard(|| serde_json::from_value::<Message>(j.clone())) {
            Ok(Ok(back)) => {
                ctx.count("json_round_trips");
                if back != *m {
                    ctx.violation(format!("C20.round_trip|json|{}", n), "C20.round_trip", format!("[{}] message {} -> JSON -> message differs: {} vs {}", origin, n, short(m), short(&back)), rp());
                }
            }
            Ok(Err(e)) => ctx.violation(format!("C20.deserialize_fails|json|{}", n), "C20.deserialize_fails", format!("[{}] message {}: its own JSON is refused: {}", origin, n, e), rp()),
            Err(p) => ctx.panic_violation("C20.no_panic", &p, "Deserialize (json)", rp()),
        },
        Ok(Err(e)) => ctx.violation(format!("C20.serialize_fails|json|{}", n), "C20.serialize_fails", format!("JSON serialisation of message {} failed: {}", n, e), rp()),
        Err(p) => ctx.panic_violation("C20.no_panic", &p, "Serialize (json)", rp()),
    }
    // and through JSON text
    if ctx.evaluations % 7 == 0 {
        if let Ok(Ok(txt)) = guard(|| serde_json::to_string(m)) {
            match guard(|| serde_json::from_str::<Message>(&txt)) {
                Ok(Ok(back)) => {
                    ctx.count("json_text_round_trips");
                    if back != *m {
                        ctx.violation(format!("C20.round_trip|json_text|{}", n), "C20.round_trip", format!("[{}] message {} -> JSON text -> message differs", origin, n), rp());
                    }
                }
                Ok(Err(e)) => ctx.violation(format!("C20.deserialize_fails|json_text|{}", n), "C20.deserialize_fails", format!("message {}: JSON text refused: {}", n, e), rp()),
                Err(p) => ctx.panic_violation("C20.no_panic", &p, "Deserialize (json text)", rp()),
            }
        }
    }
}

/// Messages whose signal descriptors are set through the public constructor `SigId::new`
/// (any band, any attribute) -- values that a Deserialize impl might be unable to produce but a
/// caller can, for each of the seven descriptor types and for the bias-list types.
fn typed_signal_messages(ctx: &mut Ctx, rng: &mut Rng) {
    use rtcm_rs::msg::*;
    let mut descs: Vec<(u8, char)> = Vec::new();
    for b in [0u8, 1, 2, 5, 9, 10, 12, 255] {
        for a in "0123456789CX c-+. \"\\'".chars() {
            descs.push((b, a));
        }
    }
    for _ in 0..40 {
        descs.push(crate::mutate::random_sig(rng));
    }
    macro_rules! msm {
        ($c:expr, $var:ident, $sig:ty) => {{
            let pos = crate::oracle::sig::positions($c)[0];
            if let Ok(Some(Message::$var(t0))) = decode(&crate::c18::one_cell_frame($c, pos)) {
                for &(b, a) in &descs {
                    let mut t = t0.clone();
                    for cell in t.data_segment.signal_data.iter_mut() {
                        cell.signal_id = <$sig>::new(b, a);
                    }
                    check(ctx, &Message::$var(t), "typed_signal_descriptors");
                }
            }
        }};
    }
    msm!(0, Msg1071, GpsSigId);
    msm!(1, Msg1081, GloSigId);
    msm!(2, Msg1091, GalSigId);
    msm!(3, Msg1101, SbasSigId);
    msm!(4, Msg1111, QzssSigId);
    msm!(5, Msg1121, BdsSigId);
    msm!(6, Msg1131, NavicSigId);
    // lists in an order of the caller's choosing, set through the typed API (a Deserialize impl that "normalises"
    // the order cannot be seen through messages that were themselves built by Deserialize)
    macro_rules! msm_order {
        ($($var:ident),*) => {$(
            for _ in 0..3 {
                let n = match Message::$var(Default::default()).number() { Some(n) => n, None => continue };
                if let Some(Ok(Some(Message::$var(t0)))) = gen::lib_frame(n, rng).map(|f| decode(&f)) {
                    for mode in 0..4 {
                        let mut t = t0.clone();
                        {
                            let cells = t.data_segment.signal_data.as_mut_slice();
                            match mode {
                                0 => cells.reverse(),
                                1 if cells.len() > 1 => { let k = rng.usize_below(cells.len() - 1); cells.swap(k, k + 1) }
                                2 => rng.shuffle(cells),
                                _ => cells.sort_by_key(|c| (c.satellite_id, c.signal_id.band(), c.signal_id.attribute())),
                            }
                        }
                        if mode % 2 == 0 {
                            t.data_segment.satellite_data.as_mut_slice().reverse();
                        }
                        ctx.count("typed_messages_with_lists_in_caller_order");
                        check(ctx, &Message::$var(t), "typed_list_order");
                    }
                }
            }
        )*};
    }
    msm_order!(Msg1074, Msg1077, Msg1084, Msg1087, Msg1094, Msg1097, Msg1107, Msg1114, Msg1117, Msg1124, Msg1127, Msg1137, Msg1071, Msg1085, Msg1096);
    for &(b, a) in &descs {
        let mut t = Msg1059T::default();
        t.biases.push(Msg1059CodeBias { satellite_id: 3, signal_id: GpsSigId::new(b, a), bias_m: 0.25 });
        check(ctx, &Message::Msg1059(t), "typed_signal_descriptors");
        let mut t = Msg1230T::default();
        t.glo_code_phase_biases.push(Msg1230CodePhaseBias { signal_id: GloSigId::new(b, a), bias_m: -0.5 });
        check(ctx, &Message::Msg1230(t), "typed_signal_descriptors");
    }
}

pub fn run(p: &Params) -> Outcome {
    let seed = p.seed;
    let n = p.size(150_000, 8_000_000);
    let per = n / p.workers as u64;
    let nums: Vec<u16> = gen::supported_numbers().to_vec();
    let nums2 = nums.clone();
    let mut total = par::run(p.workers, move |w, nw, ctx| {
        let mut rng = Rng::derive(seed, "C20", w as u64);
        let mut tpl = Templates::default();
        let nn = nums.len();
        if w % 4 == 0 {
            typed_signal_messages(ctx, &mut rng);
        }
        check(ctx, &Message::Empty, "no_wire_form");
        check(ctx, &Message::Corrupt, "no_wire_form");
        check(ctx, &Message::MsgNotSupported(rtcm_rs::msg::message::MsgNotSupportedT { message_number: 4001 }), "no_wire_form");
        for i in 0..per {
            if ctx.saturated() {
                ctx.count("stopped_early_after_20000_violations");
                break;
            }
            let num = nums[((i as usize) * nw + w) % nn];
            let frame = if rng.bool() {
                match gen::lib_frame(num, &mut rng) {
                    Some(f) => f,
                    None => continue,
                }
            } else {
                gen::wire_frame(&mut rng, num).0
            };
            let d = match decode(&frame) {
                Ok(Some(d)) if d.number().is_some() => d,
                _ => continue,
            };
            check(ctx, &d, "decoded_from_frames");
            if ctx.want_sample() && i % 211 == 3 {
                ctx.sample(|| json!({"origin": "decoded_from_frames", "frame": crate::mon::hex_short(&frame), "json": serde_json::to_string(&d).map(|s| s.chars().take(300).collect::<String>()).unwrap_or_default()}));
            }
            let v = match vtree::to_v(&d) {
                Ok(v) => v,
                Err(_) => continue,
            };
            tpl.learn(&v);
            for k in 0..4 {
                let mut mv = v.clone();
                if k == 0 {
                    // text: Latin-1 descriptors at capacity, UTF-8 text at byte capacity
                    walk_mut(&mut mv, ("", ""), &mut |node, site, c| {
                        if site == Site::Str {
                            *node = V::Str(if c.1 == "text_str" {
                                match rng.below(3) {
                                    0 => std::iter::repeat('\u{e9}').take(127).collect(),
                                    1 => std::iter::repeat('\u{20ac}').take(85).collect(),
                                    _ => strings::straddle_string(&mut rng, 255),
                                }
                            } else {
                                match rng.below(3) {
                                    0 => std::iter::repeat('\u{e9}').take(31).collect(),
                                    1 => (0..31).map(|_| char::from_u32(rng.range(0xA0, 0xFF) as u32).unwrap()).collect(),
                                    _ => strings::hostile_string(&mut rng),
                                }
                            });
                        }
                    });
                } else {
                    mutate::mutate(&mut mv, &mut rng, &tpl);
                }
                if let Ok(Ok(m)) = guard(|| vtree::from_v::<Message>(&mv)) {
                    check(ctx, &m, "mutated");
                }
            }
        }
    });
    let missing: Vec<u16> = nums2.iter().copied().filter(|n| total.get(&format!("round_trips:{}", n)) == 0).collect();
    if !missing.is_empty() {
        total.inconclusive(format!("message numbers never serialised: {:?}", missing));
    }
    for k in ["descriptor_with_latin1_high_half", "utf8_text_at_byte_capacity", "lists_at_a_capacity", "absent_optionals", "json_round_trips", "descriptor_at_capacity"] {
        if total.get(k) == 0 {
            total.inconclusive(format!("{} never observed", k));
        }
    }
    Outcome {
        ctx: total,
        rule: "messages decoded from library-generated and hostile frames of every type, their value-tree mutants (NaN excluded), Latin-1 descriptors at capacity, UTF-8 text at byte capacity, lists at capacity, absent optionals; oracle: from(to(m)) == m through the VTree format (keeps +-inf) and through serde_json Value and text (finite floats); distinct by value-tree hash".into(),
        exhaustive: false,
        extra: json!({}),
    }
}

pub fn replay(_p: &Params, v: &Value) -> Outcome {
    let mut ctx = Ctx::new(0);
    match vtree::json_to_v(&v["vtree"]).and_then(|t| vtree::from_v::<Message>(&t).ok()) {
        Some(m) => check(&mut ctx, &m, "replay"),
        None => ctx.inconclusive("replay value tree does not deserialize to a Message (for a deserialize failure that is the finding itself; see the detail text)".into()),
    }
    let _ = hex(&[]);
    Outcome { ctx, rule: "replay".into(), exhaustive: false, extra: json!({}) }
}
