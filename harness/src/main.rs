#![allow(dead_code)]
//! rtcm-verif: runtime monitors for the rtcm-rs properties C01..C20.
//! One sub-command per property; prints a JSON report on stdout (or --out file).
//! Verdicts are decided by the `check` driver from this report.

mod c02;
mod c10;
mod c12;
mod c15;
mod c17;
mod c18;
mod c20;
mod codec;
mod mutate;
mod vtree;

// the serde-free part lives in the core crate (built with full optimisation); re-exported
// here so that `crate::mon`, `crate::gen`, ... resolve in the modules of this crate
pub use rtcm_verif_core::{c07, c08, c11, c14, c16, fields, framing, gen, io, mon, oracle, par, rng};
pub use rtcm_verif_core::{Outcome, Params};

use serde_json::{json, Value};
use std::time::Instant;

fn usage() -> ! {
    eprintln!("usage: rtcm-verif <C01..C20|selftest> [--tier quick|thorough] [--seed N] [--out FILE] [--replay FILE]");
    std::process::exit(2);
}

fn main() {
    let args: Vec<String> = std::env::args().collect();
    if args.len() < 2 {
        usage();
    }
    let prop = args[1].to_uppercase();
    let mut thorough = false;
    let mut seed: u64 = std::env::var("VERIF_SEED").ok().and_then(|s| s.parse().ok()).unwrap_or(1);
    let mut out: Option<String> = None;
    let mut replay: Option<String> = None;
    let mut i = 2;
    while i < args.len() {
        match args[i].as_str() {
            "--tier" => {
                i += 1;
                thorough = args.get(i).map(|s| s == "thorough").unwrap_or(false);
            }
            "--seed" => {
                i += 1;
                seed = args.get(i).and_then(|s| s.parse().ok()).unwrap_or(1);
            }
            "--out" => {
                i += 1;
                out = args.get(i).cloned();
            }
            "--replay" => {
                i += 1;
                replay = args.get(i).cloned();
            }
            _ => usage(),
        }
        i += 1;
    }
    let profile = "release".to_string();
    let profile = std::env::var("VERIF_PROFILE").unwrap_or(profile);
    let params = Params { prop: prop.clone(), thorough, seed, profile, workers: par::workers() };

    mon::install_panic_hook();
    if !oracle::bits::self_check_fast() {
        eprintln!("reference bit writer self-check failed");
        std::process::exit(2);
    }
    if !oracle::crc::self_check() {
        eprintln!("reference CRC self-check failed");
        std::process::exit(2);
    }
    let t0 = Instant::now();
    if prop == "CORPUS" {
        // corpus for the per-feature driver (C19): hex frames, one per line
        let mut rng = rng::Rng::derive(seed, "corpus", 0);
        let mut lines: Vec<String> = Vec::new();
        let per: usize = if thorough { 12 } else { 4 };
        // many frames with random field values per type: a configuration-dependent difference in one field's
        // arithmetic may show for a fraction of a percent of the raw values only
        let per_random: usize = if thorough { 3000 } else { 500 };
        for &n in gen::supported_numbers() {
            for _ in 0..per_random {
                if let Some(f) = gen::lib_frame_random(n, &mut rng) {
                    lines.push(mon::hex(&f));
                }
            }
            for _ in 0..per {
                if let Some(f) = gen::lib_frame(n, &mut rng) {
                    lines.push(mon::hex(&f));
                }
            }
            let mut z = vec![0u8; gen::natural_len(n).max(2)];
            oracle::bits::write(&mut z, 0, 12, n as u128);
            lines.push(mon::hex(&oracle::crc::frame(&z)));
            let mut z = vec![0u8; 2];
            oracle::bits::write(&mut z, 0, 12, n as u128);
            lines.push(mon::hex(&oracle::crc::frame(&z)));
            for _ in 0..per {
                // hostile frames twice in a row: a build that remembers the previous decode
                // (and a build that does not) must still agree
                let (f, _) = gen::wire_frame(&mut rng, n);
                lines.push(mon::hex(&f));
                lines.push(mon::hex(&f));
            }
        }
        // MSM frames with exactly one empty mask (satellites but no signals, signals but no satellites), long enough for
        // the masks to be present: the full build calls them Corrupt, a build without that type "not supported"
        for &n in gen::supported_numbers() {
            if (1071..=1137).contains(&n) && (1..=7).contains(&(n % 10)) {
                for (sat, sig) in [(0u64, 0x4000_0000u32), (1u64 << 40, 0u32), (0, 0xFFFF_FFFF), (u64::MAX, 0)] {
                    let mut b = oracle::bits::BitBuf::new();
                    b.push(n as u128, 12);
                    b.push(0, 61);
                    b.push(sat as u128, 64);
                    b.push(sig as u128, 32);
                    b.push(0, 80);
                    lines.push(mon::hex(&oracle::crc::frame(&b.into_bytes())));
                }
            }
        }
        // descriptor strings as receivers send them: blank- and NUL-padded, lone blanks, Latin-1
        for n in [1007u16, 1008, 1033] {
            if gen::is_supported(n) {
                for t in gen::DESCRIPTOR_TEXTS.iter() {
                    lines.push(mon::hex(&gen::descriptor_frame(n, t)));
                }
            }
        }
        for n in [0u16, 1, 1000, 1018, 1028, 1069, 1070, 1078, 1138, 1229, 1231, 1305, 4094, 4095] {
            lines.push(mon::hex(&gen::any_number_frame(&mut rng, n, 20)));
        }
        lines.push(mon::hex(&oracle::crc::frame(&[])));
        lines.push(mon::hex(&oracle::crc::frame(&[0x3E])));
        let txt = lines.join("\n") + "\n";
        match out {
            Some(p) => std::fs::write(&p, txt).expect("write corpus"),
            None => print!("{}", txt),
        }
        return;
    }
    let outcome = if let Some(path) = replay {
        let txt = std::fs::read_to_string(&path).unwrap_or_else(|e| {
            eprintln!("cannot read replay file {}: {}", path, e);
            std::process::exit(2)
        });
        let v: Value = serde_json::from_str(&txt).unwrap_or_else(|e| {
            eprintln!("bad replay file: {}", e);
            std::process::exit(2)
        });
        dispatch_replay(&params, &v)
    } else if std::env::var("VERIF_STACKPROBE").is_ok() {
        framing::stack_probe(&params, None)
    } else {
        dispatch(&params)
    };
    let wall = t0.elapsed().as_secs_f64();
    let mut rep = outcome.ctx.to_json();
    let m = rep.as_object_mut().unwrap();
    m.insert("property".into(), json!(prop));
    m.insert("profile".into(), json!(params.profile));
    m.insert("overflow_checks_observed".into(), json!(overflow_checks_active()));
    m.insert("tier".into(), json!(if thorough { "thorough" } else { "quick" }));
    m.insert("seed".into(), json!(seed));
    m.insert("rule".into(), json!(outcome.rule));
    m.insert("exhaustive".into(), json!(outcome.exhaustive));
    m.insert("extra".into(), outcome.extra);
    m.insert("wall_s".into(), json!(wall));
    let txt = serde_json::to_string_pretty(&rep).unwrap();
    match out {
        Some(p) => std::fs::write(&p, txt).expect("write report"),
        None => println!("{}", txt),
    }
}

/// Observe (rather than assume) whether this build traps arithmetic overflow.
pub fn overflow_checks_active() -> bool {
    let x: u8 = std::hint::black_box(255);
    mon::guard(|| {
        let y = x + std::hint::black_box(1);
        std::hint::black_box(y);
    })
    .is_err()
}

fn dispatch(p: &Params) -> Outcome {
    match p.prop.as_str() {
        "C03" => framing::c03(p),
        "C04" => framing::c04(p),
        "C05" => framing::c05(p),
        "C06" => framing::c06(p),
        "C13" => framing::c13(p),
        "C07" => c07::run(p),
        "C08" => c08::run(p),
        "C11" => {
            // field level through the hook (core) + message level through the public API
            let mut o = c11::run(p);
            let o2 = codec::run_c11_messages(p);
            o.ctx.merge(o2.ctx);
            o.rule = format!("{} | {}", o.rule, o2.rule);
            if o.ctx.get("messages_stable_under_ulp_moves") == 0 && o.ctx.viol_by_sig.is_empty() {
                o.ctx.inconclusive("message-level stage observed nothing".into());
            }
            o
        }
        "C02" => c02::run(p),
        "C12" => c12::run(p),
        "C20" => c20::run(p),
        "C17" => c17::run(p),
        "C16" => c16::run(p),
        "C15" => c15::run(p),
        "C10" => c10::run(p),
        "C14" => c14::run(p),
        "C18" => c18::run(p),
        "C01" => codec::run(p, codec::Which::C01),
        "C09" => codec::run(p, codec::Which::C09),
        _ => {
            eprintln!("unknown property {}", p.prop);
            std::process::exit(2)
        }
    }
}

fn dispatch_replay(p: &Params, v: &Value) -> Outcome {
    match p.prop.as_str() {
        "C03" | "C04" | "C05" | "C06" | "C13" => framing::replay(p, v),
        "C07" => c07::replay(p, v),
        "C08" => c08::replay(p, v),
        "C11" if v["kind"] == "ulp_message" => codec::replay_c11_message(v),
        "C11" => c11::replay(p, v),
        "C02" => c02::replay(p, v),
        "C12" => c12::replay(p, v),
        "C20" => c20::replay(p, v),
        "C17" => c17::replay(p, v),
        "C16" => c16::replay(p, v),
        "C15" => c15::replay(p, v),
        "C10" => c10::replay(p, v),
        "C14" => c14::replay(p, v),
        "C18" => c18::replay(p, v),
        "C01" => codec::replay(p, v, codec::Which::C01),
        "C09" => codec::replay(p, v, codec::Which::C09),
        _ => {
            eprintln!("unknown property {}", p.prop);
            std::process::exit(2)
        }
    }
}
