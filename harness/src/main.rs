#![allow(dead_code)]
//! rtcm-verif: runtime monitors for the rtcm-rs properties C01..C20.
//! One sub-command per property; prints a JSON report on stdout (or --out file).
//! Verdicts are decided by the `check` driver from this report.

mod c07;
mod c08;
mod c02;
mod c11;
mod c12;
mod codec;
mod mutate;
mod vtree;
mod fields;
mod framing;
mod gen;
mod mon;
mod oracle;
mod par;
mod rng;

use serde_json::{json, Value};
use std::time::Instant;

#[derive(Clone, Debug)]
pub struct Params {
    pub prop: String,
    pub thorough: bool,
    pub seed: u64,
    pub profile: String,
    pub workers: usize,
}

impl Params {
    /// pick a size by tier
    pub fn size(&self, quick: u64, thorough: u64) -> u64 {
        let base = if self.thorough { thorough } else { quick };
        // VERIF_SCALE (percent) lets the mutant runner shorten or lengthen runs
        let pct: u64 = std::env::var("VERIF_SCALE").ok().and_then(|s| s.parse().ok()).unwrap_or(100);
        (base * pct / 100).max(1)
    }
}

pub struct Outcome {
    pub ctx: mon::Ctx,
    pub rule: String,
    pub exhaustive: bool,
    pub extra: Value,
}

fn usage() -> ! {
    eprintln!("usage: rtcm-verif <C01..C20|selftest> [--tier quick|thorough] [--seed N] [--out FILE] [--replay FILE]");
    std::process::exit(2);
}

fn main() {
    let args: Vec<String> = std::env::args().collect();
    if args.len() < 2 {
        usage();
    }
    let prop = args[1].to_uppercase();
    let mut thorough = false;
    let mut seed: u64 = std::env::var("VERIF_SEED").ok().and_then(|s| s.parse().ok()).unwrap_or(1);
    let mut out: Option<String> = None;
    let mut replay: Option<String> = None;
    let mut i = 2;
    while i < args.len() {
        match args[i].as_str() {
            "--tier" => {
                i += 1;
                thorough = args.get(i).map(|s| s == "thorough").unwrap_or(false);
            }
            "--seed" => {
                i += 1;
                seed = args.get(i).and_then(|s| s.parse().ok()).unwrap_or(1);
            }
            "--out" => {
                i += 1;
                out = args.get(i).cloned();
            }
            "--replay" => {
                i += 1;
                replay = args.get(i).cloned();
            }
            _ => usage(),
        }
        i += 1;
    }
    let profile = "release".to_string();
    let profile = std::env::var("VERIF_PROFILE").unwrap_or(profile);
    let params = Params { prop: prop.clone(), thorough, seed, profile, workers: par::workers() };

    mon::install_panic_hook();
    if !oracle::bits::self_check_fast() {
        eprintln!("reference bit writer self-check failed");
        std::process::exit(2);
    }
    if !oracle::crc::self_check() {
        eprintln!("reference CRC self-check failed");
        std::process::exit(2);
    }
    let t0 = Instant::now();
    let outcome = if let Some(path) = replay {
        let txt = std::fs::read_to_string(&path).unwrap_or_else(|e| {
            eprintln!("cannot read replay file {}: {}", path, e);
            std::process::exit(2)
        });
        let v: Value = serde_json::from_str(&txt).unwrap_or_else(|e| {
            eprintln!("bad replay file: {}", e);
            std::process::exit(2)
        });
        dispatch_replay(&params, &v)
    } else {
        dispatch(&params)
    };
    let wall = t0.elapsed().as_secs_f64();
    let mut rep = outcome.ctx.to_json();
    let m = rep.as_object_mut().unwrap();
    m.insert("property".into(), json!(prop));
    m.insert("profile".into(), json!(params.profile));
    m.insert("overflow_checks_observed".into(), json!(overflow_checks_active()));
    m.insert("tier".into(), json!(if thorough { "thorough" } else { "quick" }));
    m.insert("seed".into(), json!(seed));
    m.insert("rule".into(), json!(outcome.rule));
    m.insert("exhaustive".into(), json!(outcome.exhaustive));
    m.insert("extra".into(), outcome.extra);
    m.insert("wall_s".into(), json!(wall));
    let txt = serde_json::to_string_pretty(&rep).unwrap();
    match out {
        Some(p) => std::fs::write(&p, txt).expect("write report"),
        None => println!("{}", txt),
    }
}

/// Observe (rather than assume) whether this build traps arithmetic overflow.
pub fn overflow_checks_active() -> bool {
    let x: u8 = std::hint::black_box(255);
    mon::guard(|| {
        let y = x + std::hint::black_box(1);
        std::hint::black_box(y);
    })
    .is_err()
}

fn dispatch(p: &Params) -> Outcome {
    match p.prop.as_str() {
        "C03" => framing::c03(p),
        "C04" => framing::c04(p),
        "C05" => framing::c05(p),
        "C06" => framing::c06(p),
        "C13" => framing::c13(p),
        "C07" => c07::run(p),
        "C08" => c08::run(p),
        "C11" => c11::run(p),
        "C02" => c02::run(p),
        "C12" => c12::run(p),
        "C01" => codec::run(p, codec::Which::C01),
        "C09" => codec::run(p, codec::Which::C09),
        _ => {
            eprintln!("unknown property {}", p.prop);
            std::process::exit(2)
        }
    }
}

fn dispatch_replay(p: &Params, v: &Value) -> Outcome {
    match p.prop.as_str() {
        "C03" | "C04" | "C05" | "C06" | "C13" => framing::replay(p, v),
        "C07" => c07::replay(p, v),
        "C08" => c08::replay(p, v),
        "C11" => c11::replay(p, v),
        "C02" => c02::replay(p, v),
        "C12" => c12::replay(p, v),
        "C01" => codec::replay(p, v, codec::Which::C01),
        "C09" => codec::replay(p, v, codec::Which::C09),
        _ => {
            eprintln!("unknown property {}", p.prop);
            std::process::exit(2)
        }
    }
}
