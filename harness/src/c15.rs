//! C15: count-prefixed lists and strings of every admissible length survive; counts and
//! capacities agree; over-capacity counts and truncated bodies decode to Corrupt.

use crate::c10::{find_field_mut, seq_mut};
use crate::codec::{build, decode};
use crate::framing::msg_class;
use crate::gen;
use crate::mon::{hex, hex_short, unhex, Ctx};
use crate::mutate::{walk_mut, Site};
use crate::oracle::layout::{self, ListLayout, LISTS};
use crate::oracle::{bits, crc};
use crate::par;
use crate::rng::{hash_bytes, Rng};
use crate::vtree::{self, V};
use crate::{Outcome, Params};
use rtcm_rs::prelude::*;
use serde_json::{json, Value};

fn list_frame(rng: &mut Rng, l: &ListLayout, n: usize, fill: usize) -> Option<Vec<u8>> {
    let total_bits = l.elems_bit + n * l.elem_bits;
    let nbytes = (total_bits + 7) / 8;
    if nbytes > 1023 {
        return None;
    }
    let mut p = match fill {
        0 => vec![0u8; nbytes],
        1 => vec![0xFFu8; nbytes],
        _ => rng.bytes(nbytes),
    };
    bits::write(&mut p, 0, 12, l.number as u128);
    bits::write(&mut p, l.count_bit, l.count_width, n as u128);
    // zero the padding bits
    for b in total_bits..nbytes * 8 {
        bits::set_bit(&mut p, b, false);
    }
    Some(crc::frame(&p))
}

thread_local! {
    /// per message number: messages the encoder refuses after having written part of the payload
    static REFUSED: std::cell::RefCell<std::collections::HashMap<u16, Vec<Message>>> = std::cell::RefCell::new(std::collections::HashMap::new());
}

/// Messages of type `number` that `build_message` refuses (mutants of `d` and the decode of an all-ones body): a
/// receiver's builder has usually seen other messages, refused ones included, before it encodes a list.
fn refused_predecessors(number: u16, d: &Message) -> Vec<Message> {
    REFUSED.with(|c| {
        let mut c = c.borrow_mut();
        if let Some(v) = c.get(&number) {
            return v.clone();
        }
        // wait for a list with a tail to derive late refusals from
        if vtree::to_v(d).ok().and_then(|v| first_seq_len(&v)).unwrap_or(0) < 2 {
            return Vec::new();
        }
        let mut out: Vec<Message> = Vec::new();
        let mut rng = Rng::derive(0xC15, "refused", number as u64);
        let mut p = vec![0xFFu8; 1023];
        bits::write(&mut p, 0, 12, number as u128);
        let mut cands: Vec<Message> = Vec::new();
        if let Ok(Some(m)) = decode(&crc::frame(&p)) {
            cands.push(m);
        }
        if let Ok(v) = vtree::to_v(d) {
            // refused late: one of the last numeric leaves (the tail of the list) pushed out of range
            let total = crate::mutate::count_numeric(&mut v.clone());
            for back in 0..total.min(24) {
                for high in [true, false] {
                    let mut mv = v.clone();
                    crate::mutate::extreme_leaf(&mut mv, total - 1 - back, high);
                    if let Ok(Ok(m)) = crate::mon::guard(|| vtree::from_v::<Message>(&mv)) {
                        cands.push(m);
                    }
                }
            }
            let mut tpl = crate::mutate::Templates::default();
            tpl.learn(&v);
            for _ in 0..200 {
                let mut mv = v.clone();
                crate::mutate::mutate(&mut mv, &mut rng, &tpl);
                if let Ok(Ok(m)) = crate::mon::guard(|| vtree::from_v::<Message>(&mv)) {
                    cands.push(m);
                }
            }
        }
        for m in cands {
            if out.len() >= 8 {
                break;
            }
            if matches!(build(&m), Ok(Err(_))) {
                out.push(m);
            }
        }
        c.insert(number, out.clone());
        out
    })
}

/// the same message on a builder that has just refused another one
fn build_after_refusal(prev: &Message, m: &Message) -> Result<Result<Vec<u8>, String>, crate::mon::PanicEv> {
    crate::mon::guard(|| {
        let mut b = MessageBuilder::new();
        let _ = b.build_message(prev).map(|f| f.len());
        match b.build_message(m) {
            Ok(f) => Ok(f.to_vec()),
            Err(e) => Err(format!("{:?}", e)),
        }
    })
}

/// drops the last element of the first list in the tree; false when there is none to drop
fn pop_first_seq(v: &mut V) -> bool {
    match v {
        V::Seq(xs) => xs.pop().is_some(),
        V::Some(x) | V::Newtype(_, x) | V::NewtypeVariant(_, _, _, x) => pop_first_seq(x),
        V::Struct(_, fs) => {
            for (_, x) in fs.iter_mut() {
                if first_seq_len(x).is_some() {
                    return pop_first_seq(x);
                }
            }
            false
        }
        _ => false,
    }
}

fn first_seq_len(v: &V) -> Option<usize> {
    match v {
        V::Seq(xs) => Some(xs.len()),
        V::Some(x) | V::Newtype(_, x) | V::NewtypeVariant(_, _, _, x) => first_seq_len(x),
        V::Struct(_, fs) => fs.iter().find_map(|(_, x)| first_seq_len(x)),
        _ => None,
    }
}

fn check_list_frame(ctx: &mut Ctx, l: &ListLayout, n: usize, f: &[u8]) {
    ctx.eval();
    ctx.nontrivial(hash_bytes(f));
    let rp = || json!({"kind":"list_frame","number":l.number,"n":n,"hex":hex(f)});
    let d = match decode(f) {
        Ok(Some(d)) => d,
        Ok(None) => {
            ctx.violation("C15.reference_frame_rejected".into(), "C15.reference_frame_rejected", hex_short(f), rp());
            return;
        }
        Err(_) => {
            ctx.count("decode_panics_left_to_C02");
            return;
        }
    };
    if d.number() != Some(l.number) {
        ctx.violation(format!("C15.admissible_length_decodes|{}", l.number), "C15.admissible_length_decodes", format!("msg {} with {} elements (capacity {}) decodes to {}; frame={}", l.number, n, l.capacity, msg_class(&d), hex_short(f)), rp());
        return;
    }
    let got = vtree::to_v(&d).ok().and_then(|v| first_seq_len(&v));
    if got != Some(n) {
        ctx.violation(format!("C15.element_count|{}", l.number), "C15.element_count", format!("msg {}: count field {} but {:?} elements decoded", l.number, n, got), rp());
        return;
    }
    match build(&d) {
        Err(_) => ctx.count("encode_panics_left_to_C09"),
        Ok(Err(e)) => ctx.violation(format!("C15.admissible_length_encodes|{}|{}", l.number, e), "C15.admissible_length_encodes", format!("msg {} with {} elements (capacity {}) refused by the encoder: {}", l.number, n, l.capacity, e), rp()),
        Ok(Ok(f2)) => {
            if f2.len() > 1029 {
                ctx.violation(format!("C15.fits_payload|{}", l.number), "C15.fits_payload", format!("msg {} with {} elements: frame of {} bytes", l.number, n, f2.len()), rp());
            } else if f2.len() * 8 >= 24 + l.count_bit + l.count_width && bits::read(&f2[3..], l.count_bit, l.count_width) as usize != n {
                ctx.violation(format!("C15.count_on_wire|{}", l.number), "C15.count_on_wire", format!("msg {}: {} elements but count field on the wire is {}", l.number, n, bits::read(&f2[3..], l.count_bit, l.count_width)), rp());
            } else if f2 == f {
                // the same list on a builder that has just refused another message of this type
                let prevs = refused_predecessors(l.number, &d);
                if !prevs.is_empty() {
                    let prev = &prevs[(ctx.evaluations as usize) % prevs.len()];
                    ctx.count("lists_encoded_right_after_a_refused_message");
                    if let Ok(Ok(f3)) = build_after_refusal(prev, &d) {
                        if f3 != f2 {
                            ctx.violation(
                                format!("C15.same_order_and_content|{}|after_refused_message", l.number),
                                "C15.same_order_and_content",
                                format!("msg {} with {} elements: encoded right after a refused message the frame differs from the one a fresh builder gives: {} / {}", l.number, n, hex_short(&f3), hex_short(&f2)),
                                rp(),
                            );
                        }
                    }
                }
                // the same list on a builder that has just built the list with one element fewer (the shorter frame's
                // trailer sits where the new element goes; seeded change C15-R11)
                if n >= 1 {
                    if let Some(prev) = vtree::to_v(&d).ok().and_then(|mut v| if pop_first_seq(&mut v) { vtree::from_v::<Message>(&v).ok() } else { None }) {
                        ctx.count("lists_encoded_right_after_the_list_one_shorter");
                        if let Ok(Ok(f3)) = build_after_refusal(&prev, &d) {
                            if f3 != f2 {
                                ctx.violation(
                                    format!("C15.same_order_and_content|{}|after_shorter_list", l.number),
                                    "C15.same_order_and_content",
                                    format!("msg {} with {} elements: encoded right after the same list with {} elements on one builder the frame differs from the one a fresh builder gives: {} / {}", l.number, n, n - 1, hex_short(&f3), hex_short(&f2)),
                                    rp(),
                                );
                            }
                        }
                    }
                }
                if ctx.want_sample() && (n == l.capacity || n == 0) {
                    ctx.sample(|| json!({"number": l.number, "elements": n, "capacity": l.capacity, "payload_bytes": f.len() - 6, "count_field": {"bit": l.count_bit, "width": l.count_width}, "frame": hex_short(f), "result": "decoded n elements, re-encoded to the identical frame"}));
                }
            } else {
                let mut first = 0;
                let m = f.len().min(f2.len());
                while first < m * 8 && bits::get_bit(f, first) == bits::get_bit(&f2, first) {
                    first += 1;
                }
                let pb = first as i64 - 24;
                let elem = if pb >= l.elems_bit as i64 { (pb - l.elems_bit as i64) / l.elem_bits as i64 } else { -1 };
                ctx.violation(
                    format!("C15.same_order_and_content|{}", l.number),
                    "C15.same_order_and_content",
                    format!("msg {} with {} elements: re-encoding differs from the frame at payload bit {} (element index {}); lengths {} / {}", l.number, n, pb, elem, f.len(), f2.len()),
                    rp(),
                );
            }
        }
    }
}

fn expect_corrupt(ctx: &mut Ctx, f: &[u8], number: u16, why: &'static str) {
    ctx.eval();
    ctx.count(why);
    let rp = || json!({"kind":"corrupt_frame","number":number,"why":why,"hex":hex(f)});
    match decode(f) {
        Ok(Some(Message::Corrupt)) => {}
        Ok(Some(other)) => {
            ctx.violation(format!("C15.{}|{}", why, number), &format!("C15.{}", why), format!("msg {} ({}) decodes to {} instead of Corrupt; frame={}", number, why, msg_class(&other), hex_short(f)), rp());
        }
        Ok(None) => ctx.violation("C15.reference_frame_rejected".into(), "C15.reference_frame_rejected", hex_short(f), rp()),
        Err(_) => ctx.count("decode_panics_left_to_C02"),
    }
}

fn ascii(rng: &mut Rng, n: usize) -> String {
    (0..n).map(|_| rng.range(0x20, 0x7E) as u8 as char).collect()
}

/// strings through the typed route: set every Str leaf to n characters
fn check_strings(ctx: &mut Ctx, rng: &mut Rng, number: u16, reps: usize) {
    let base = (0..8).find_map(|_| gen::lib_frame(number, rng).and_then(|f| decode(&f).ok().flatten()).filter(|m| m.number() == Some(number)));
    let base = match base {
        Some(b) => b,
        None => {
            ctx.inconclusive(format!("no base message for {}", number));
            return;
        }
    };
    let v = match vtree::to_v(&base) {
        Ok(v) => v,
        Err(_) => return,
    };
    let (cap_chars, len_bit, len_w): (usize, usize, usize) = if number == 1029 {
        (127, layout::M1029_CHARS_BIT, 7)
    } else if layout::STR8_AT_24.contains(&number) {
        (31, 24, 8)
    } else {
        (31, 12, 5)
    };
    for n in 0..=cap_chars + 3 {
        for rep in 0..reps {
            ctx.eval();
            let mut mv = v.clone();
            let mut first = true;
            let mut first_len = 0usize;
            walk_mut(&mut mv, ("", ""), &mut |node, site, _| {
                if site == Site::Str {
                    let k = if first { n } else if rep == 0 { n.min(31) } else { rng.usize_below(32) };
                    if first {
                        first_len = k;
                    }
                    first = false;
                    *node = V::Str(ascii(rng, k));
                }
            });
            let m: Message = match vtree::from_v(&mv) {
                Ok(m) => m,
                Err(_) => continue,
            };
            let rp = || json!({"kind":"message","vtree":vtree::v_to_json(&mv)});
            // Strings longer than the capacity are cut by the public string type itself (C17);
            // what arrives here holds min(n, capacity) characters.
            let held = first_len.min(if number == 1029 { 255 } else { 31 });
            match build(&m) {
                Err(_) => ctx.count("encode_panics_left_to_C09"),
                Ok(Err(e)) => {
                    if number == 1029 && held > 127 {
                        ctx.count("text_over_127_chars_refused");
                    } else {
                        ctx.violation(format!("C15.string_length_encodes|{}|{}", number, e), "C15.string_length_encodes", format!("msg {} with a {}-character string refused: {}", number, held, e), rp());
                    }
                }
                Ok(Ok(f)) => {
                    ctx.nontrivial(hash_bytes(&f));
                    ctx.count_dyn(format!("string_lengths_ok:{}", number));
                    if number == 1029 && held > 127 {
                        ctx.violation("C15.text_over_127_accepted".into(), "C15.text_over_127_accepted", format!("1029 text of {} characters was encoded", held), rp());
                        continue;
                    }
                    let wire = bits::read(&f[3..], len_bit, len_w) as usize;
                    if wire != held {
                        ctx.violation(format!("C15.string_count_on_wire|{}", number), "C15.string_count_on_wire", format!("msg {}: first string holds {} characters, length field on the wire says {}", number, held, wire), rp());
                    }
                    if number == 1029 {
                        let bytes = bits::read(&f[3..], layout::M1029_BYTES_BIT, 8) as usize;
                        if bytes != held {
                            ctx.violation("C15.string_count_on_wire|1029bytes".into(), "C15.string_count_on_wire", format!("1029: {} ASCII characters, byte count on the wire {}", held, bytes), rp());
                        }
                    }
                    match decode(&f) {
                        Ok(Some(d)) => {
                            if d != m {
                                ctx.violation(format!("C15.string_round_trip|{}", number), "C15.string_round_trip", format!("msg {} with {}-character string does not decode to the same message", number, held), rp());
                            }
                        }
                        _ => ctx.count("decode_panics_left_to_C02"),
                    }
                }
            }
        }
    }
}

/// 1029 on the wire: every admissible pair (characters n, bytes b), n <= 127, n <= b <= min(255, 4n), with 1-, 2-,
/// 3- and 4-byte characters mixed so that the counts come out, the widest character last in half of the cases.
/// The frame is written by the reference; the decoder must return the text, the encoder must reproduce the frame.
fn check_1029_text_frame(ctx: &mut Ctx, text: &str) {
    ctx.eval();
    let n = text.chars().count();
    let b = text.len();
    let mut p = vec![0u8; 9 + b];
    bits::write(&mut p, 0, 12, 1029);
    bits::write(&mut p, 12, 12, 0x0AB);
    bits::write(&mut p, 24, 16, 61_000);
    bits::write(&mut p, 40, 17, 43_210);
    bits::write(&mut p, layout::M1029_CHARS_BIT, 7, n as u128);
    bits::write(&mut p, layout::M1029_BYTES_BIT, 8, b as u128);
    p[9..].copy_from_slice(text.as_bytes());
    let f = crc::frame(&p);
    ctx.nontrivial(hash_bytes(&f));
    let rp = || json!({"kind":"text_frame","text":text});
    let d = match decode(&f) {
        Ok(Some(d)) => d,
        Ok(None) => {
            ctx.violation("C15.reference_frame_rejected".into(), "C15.reference_frame_rejected", hex_short(&f), rp());
            return;
        }
        Err(_) => {
            ctx.count("decode_panics_left_to_C02");
            return;
        }
    };
    if d.number() != Some(1029) {
        ctx.violation("C15.admissible_length_decodes|1029".into(), "C15.admissible_length_decodes", format!("1029 text of {} characters / {} bytes decodes to {}", n, b, msg_class(&d)), rp());
        return;
    }
    let mut got: Option<String> = None;
    if let Ok(mut v) = vtree::to_v(&d) {
        walk_mut(&mut v, ("", ""), &mut |node, site, _| {
            if site == Site::Str && got.is_none() {
                if let V::Str(s) = node {
                    got = Some(s.clone());
                }
            }
        });
    }
    if got.as_deref() != Some(text) {
        let g = got.unwrap_or_default();
        ctx.violation(
            format!("C15.text_survives|1029|{}", if g.len() < b { "shorter" } else if g.len() > b { "longer" } else { "different" }),
            "C15.text_survives",
            format!("1029 text of {} characters / {} bytes (last character U+{:04X}) decodes to {} characters / {} bytes", n, b, text.chars().last().map(|c| c as u32).unwrap_or(0), g.chars().count(), g.len()),
            rp(),
        );
        return;
    }
    match build(&d) {
        Err(_) => ctx.count("encode_panics_left_to_C09"),
        Ok(Err(e)) => ctx.violation(format!("C15.admissible_length_encodes|1029|{}", e), "C15.admissible_length_encodes", format!("1029 text of {} characters / {} bytes refused by the encoder: {}", n, b, e), rp()),
        Ok(Ok(f2)) => {
            if f2 != f {
                let cw = bits::read(&f2[3..], layout::M1029_CHARS_BIT, 7);
                let bw = bits::read(&f2[3..], layout::M1029_BYTES_BIT, 8);
                ctx.violation("C15.string_count_on_wire|1029".into(), "C15.string_count_on_wire", format!("1029 text of {} characters / {} bytes re-encodes to a different frame (character count field {}, byte count field {})", n, b, cw, bw), rp());
            } else {
                ctx.count("text_frames_1029_ok");
            }
        }
    }
}

fn text_with_counts(rng: &mut Rng, n: usize, b: usize, widest_last: bool) -> String {
    // widths 1..=4 per character summing to b
    let mut w = vec![1usize; n];
    let mut extra = b - n;
    while extra > 0 {
        let i = rng.usize_below(n);
        if w[i] < 4 {
            w[i] += 1;
            extra -= 1;
        }
    }
    if widest_last && n > 0 {
        let (mi, _) = w.iter().enumerate().max_by_key(|(_, x)| **x).unwrap();
        w.swap(mi, n - 1);
    }
    const ONE: [char; 4] = ['a', 'Z', '7', '~'];
    const TWO: [char; 4] = ['\u{e9}', '\u{df}', '\u{3a9}', '\u{7ff}'];
    const THREE: [char; 4] = ['\u{4e2d}', '\u{20ac}', '\u{800}', '\u{fffd}'];
    const FOUR: [char; 5] = ['\u{1f6f0}', '\u{10000}', '\u{e0001}', '\u{100000}', '\u{10fffd}'];
    w.iter()
        .map(|k| match k {
            1 => *rng.pick(&ONE),
            2 => *rng.pick(&TWO),
            3 => *rng.pick(&THREE),
            _ => *rng.pick(&FOUR),
        })
        .collect()
}

fn check_1029_lengths(ctx: &mut Ctx, rng: &mut Rng, reps: usize) {
    for n in 0..=127usize {
        for b in n..=(4 * n).min(255) {
            for rep in 0..reps.max(1).min(3) {
                let t = text_with_counts(rng, n, b, rep == 0);
                check_1029_text_frame(ctx, &t);
            }
        }
    }
}

/// 1302: every number of database links 0..=7
fn check_1302(ctx: &mut Ctx, rng: &mut Rng, reps: usize) {
    let base = (0..40).find_map(|_| {
        gen::lib_frame(1302, rng).and_then(|f| decode(&f).ok().flatten()).and_then(|m| vtree::to_v(&m).ok()).filter(|v| {
            let mut vv = v.clone();
            find_field_mut(&mut vv, "db_links").and_then(seq_mut).map(|x| !x.is_empty()).unwrap_or(false)
        })
    });
    let v = match base {
        Some(v) => v,
        None => {
            ctx.inconclusive("no 1302 base with links".into());
            return;
        }
    };
    for n in 0..=8usize {
        for rep in 0..reps.max(4) {
            ctx.eval();
            let mut mv = v.clone();
            // the shortest bodies as well: empty name, all links empty / one character in all
            let name_len = if rep < 4 { [0usize, 0, 1, 31][rep] } else { rng.usize_below(32) };
            if let Some(V::Str(s)) = find_field_mut(&mut mv, "rtcm_crs_name_str") {
                *s = ascii(rng, name_len);
            }
            if let Some(xs) = find_field_mut(&mut mv, "db_links").and_then(seq_mut) {
                let tpl = xs[0].clone();
                xs.clear();
                for _ in 0..n {
                    let mut e = tpl.clone();
                    let k = match rep {
                        0 | 2 => 0,
                        1 => usize::from(xs.len() + 1 == n),
                        3 => 31,
                        _ => rng.usize_below(32),
                    };
                    if let Some(V::Str(s)) = find_field_mut(&mut e, "database_link_str") {
                        *s = ascii(rng, k);
                    }
                    xs.push(e);
                }
            }
            let m: Message = match vtree::from_v(&mv) {
                Ok(m) => m,
                Err(_) => {
                    if n <= 7 {
                        ctx.violation("C15.list_capacity|1302".into(), "C15.list_capacity", format!("1302 with {} links cannot be constructed", n), json!({"kind":"none"}));
                    } else {
                        ctx.count("over_capacity_not_constructible");
                    }
                    continue;
                }
            };
            let rp = || json!({"kind":"message","vtree":vtree::v_to_json(&mv)});
            match build(&m) {
                Ok(Ok(f)) => {
                    ctx.nontrivial(hash_bytes(&f));
                    let cnt_bit = 12 + 5 + 8 * name_len + 1 + 5;
                    let wire = bits::read(&f[3..], cnt_bit, 3) as usize;
                    if wire != n {
                        ctx.violation("C15.count_on_wire|1302".into(), "C15.count_on_wire", format!("1302: {} links, count field on the wire {}", n, wire), rp());
                    }
                    match decode(&f) {
                        Ok(Some(d)) if d == m => ctx.count_dyn("list_lengths_ok:1302".into()),
                        Ok(Some(d)) => ctx.violation("C15.same_order_and_content|1302".into(), "C15.same_order_and_content", format!("1302 with {} links decodes to {}", n, msg_class(&d)), rp()),
                        _ => {}
                    }
                }
                Ok(Err(e)) => ctx.violation(format!("C15.admissible_length_encodes|1302|{}", e), "C15.admissible_length_encodes", format!("1302 with {} links refused: {}", n, e), rp()),
                Err(_) => ctx.count("encode_panics_left_to_C09"),
            }
        }
    }
}

pub fn run(p: &Params) -> Outcome {
    let seed = p.seed;
    let reps = p.size(150, 3000) as usize;
    let thorough = p.thorough;
    let string_msgs: Vec<u16> = vec![1007, 1008, 1033, 1021, 1022, 1300, 1301, 1302, 1029];
    let sm = string_msgs.clone();
    let njobs = LISTS.len() + string_msgs.len() + 1;
    let mut total = par::run_queue(p.workers, njobs, move |j, ctx| {
        let mut rng = Rng::derive(seed, "C15", j as u64);
        if j < LISTS.len() {
            let l = &LISTS[j];
            if !gen::is_supported(l.number) {
                return;
            }
            // every n in 0..=capacity
            for n in 0..=l.capacity {
                for rep in 0..reps {
                    match list_frame(&mut rng, l, n, rep.min(2)) {
                        Some(f) => {
                            check_list_frame(ctx, l, n, &f);
                            if n == l.capacity {
                                ctx.count_dyn(format!("full_list_payload_bytes:{}={}", l.number, f.len() - 6));
                            }
                        }
                        None => {
                            ctx.violation(format!("C15.fits_payload|{}", l.number), "C15.fits_payload", format!("msg {} with {} elements needs more than 1023 bytes by the reference layout", l.number, n), json!({"kind":"none"}));
                        }
                    }
                }
            }
            ctx.count_dyn(format!("list_lengths_0_to_cap:{}", l.number));
            // every count value above the capacity, full-length payload
            let maxv = (1usize << l.count_width) - 1;
            for c in l.capacity + 1..=maxv {
                for rep in 0..reps.min(20) {
                    let mut pl = match rep {
                        0 => vec![0u8; 1023],
                        1 => vec![0xFFu8; 1023],
                        _ => rng.bytes(1023),
                    };
                    bits::write(&mut pl, 0, 12, l.number as u128);
                    bits::write(&mut pl, l.count_bit, l.count_width, c as u128);
                    expect_corrupt(ctx, &crc::frame(&pl), l.number, "count_above_capacity_is_corrupt");
                }
            }
            // every truncation point of a full-length frame (n = capacity) and of a few others
            let mut ns: Vec<usize> = vec![l.capacity, 1, l.capacity / 2];
            if thorough {
                ns.extend(0..=l.capacity);
            }
            ns.sort();
            ns.dedup();
            for n in ns {
                if let Some(f) = list_frame(&mut rng, l, n, 2) {
                    let pl = &f[3..f.len() - 3];
                    for t in 2..pl.len() {
                        expect_corrupt(ctx, &crc::frame(&pl[..t]), l.number, "truncated_body_is_corrupt");
                    }
                }
            }
        } else if j < LISTS.len() + sm.len() {
            let n = sm[j - LISTS.len()];
            if !gen::is_supported(n) {
                return;
            }
            check_strings(ctx, &mut rng, n, reps.min(40));
            if n == 1029 {
                check_1029_lengths(ctx, &mut rng, reps);
            }
            if layout::STR8_AT_24.contains(&n) {
                for c in 32..=255usize {
                    for rep in 0..3 {
                        let mut pl = match rep {
                            0 => vec![0u8; 1023],
                            1 => vec![0xFFu8; 1023],
                            _ => rng.bytes(1023),
                        };
                        bits::write(&mut pl, 0, 12, n as u128);
                        pl[3] = c as u8;
                        expect_corrupt(ctx, &crc::frame(&pl), n, "string_length_above_capacity_is_corrupt");
                    }
                }
            }
            // truncations of a natural frame with strings
            for _ in 0..reps.min(10) {
                if let Some(f) = gen::lib_frame(n, &mut rng) {
                    let pl = &f[3..f.len() - 3];
                    // these messages end with payload padding of < 8 bits, so any shorter body
                    // lacks real bits
                    for t in 2..pl.len() {
                        expect_corrupt(ctx, &crc::frame(&pl[..t]), n, "truncated_body_is_corrupt");
                    }
                }
            }
        } else {
            if gen::is_supported(1302) {
                check_1302(ctx, &mut rng, reps.min(60));
            }
        }
    });
    total.exhaustive_parts.push("every element count 0..=capacity for each list message; every count value above capacity; every truncation point of full-length frames; every string length 0..=capacity(+3)".into());
    for l in LISTS {
        if gen::is_supported(l.number) && total.get(&format!("list_lengths_0_to_cap:{}", l.number)) == 0 {
            total.inconclusive(format!("list message {} not exercised", l.number));
        }
    }
    for k in ["count_above_capacity_is_corrupt", "truncated_body_is_corrupt", "string_length_above_capacity_is_corrupt"] {
        if total.get(k) == 0 {
            total.inconclusive(format!("{} never exercised", k));
        }
    }
    Outcome {
        ctx: total,
        rule: "for each of the list-bearing messages (LayoutRef) and every n in 0..=capacity: reference-built frame with count n and zero/ones/random elements -> decode gives n elements -> re-encode reproduces the frame, count field == n, payload <= 1023; every count above capacity in a 1023-byte payload => Corrupt; every truncation 2..L-1 => Corrupt; strings of every length through the typed route with the length field read off the wire; 1029 frames for every admissible (characters, bytes) pair with 1..4-byte characters; non-trivial/distinct = distinct accepted frames (hash)".into(),
        exhaustive: false,
        extra: json!({"list_messages": LISTS.len()}),
    }
}

pub fn replay(_p: &Params, v: &Value) -> Outcome {
    let mut ctx = Ctx::new(0);
    match v["kind"].as_str().unwrap_or("") {
        "list_frame" => {
            let n = v["number"].as_u64().unwrap_or(0) as u16;
            if let Some(l) = layout::list_layout(n) {
                check_list_frame(&mut ctx, l, v["n"].as_u64().unwrap_or(0) as usize, &unhex(v["hex"].as_str().unwrap_or("")));
            }
        }
        "text_frame" => check_1029_text_frame(&mut ctx, v["text"].as_str().unwrap_or("")),
        "corrupt_frame" => {
            expect_corrupt(&mut ctx, &unhex(v["hex"].as_str().unwrap_or("")), v["number"].as_u64().unwrap_or(0) as u16, "replay_expect_corrupt");
        }
        "message" => match vtree::json_to_v(&v["vtree"]).and_then(|t| vtree::from_v::<Message>(&t).ok()) {
            Some(m) => {
                ctx.eval();
                if let Ok(Ok(f)) = build(&m) {
                    match decode(&f) {
                        Ok(Some(d)) if d == m => {}
                        _ => ctx.violation("C15.string_round_trip|replay".into(), "C15.string_round_trip", "message does not round trip".into(), v.clone()),
                    }
                }
            }
            None => ctx.inconclusive("tree does not deserialize".into()),
        },
        k => ctx.inconclusive(format!("unknown replay kind {}", k)),
    }
    Outcome { ctx, rule: "replay".into(), exhaustive: false, extra: json!({}) }
}
