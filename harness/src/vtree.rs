//! VTree: the harness's own in-memory self-describing serde data format.  Keeps the exact
//! serde type of every leaf and can carry NaN and +-inf (unlike serde_json::Value).
//! `to_v` (Serializer) and `from_v` (Deserializer) give a generic route
//! Message -> V -> mutate -> V -> Message' through the library's public serde impls.

use serde::de::{self, DeserializeOwned, DeserializeSeed, EnumAccess, MapAccess, SeqAccess, VariantAccess, Visitor};
use serde::ser::{self, Serialize};
use serde_json::{json, Value};
use std::fmt;

#[derive(Clone, Debug, PartialEq)]
pub enum V {
    Bool(bool),
    U8(u8),
    U16(u16),
    U32(u32),
    U64(u64),
    I8(i8),
    I16(i16),
    I32(i32),
    I64(i64),
    F32(f32),
    F64(f64),
    Char(char),
    Str(String),
    Unit,
    None,
    Some(Box<V>),
    Seq(Vec<V>),
    Tuple(Vec<V>),
    TupleStruct(&'static str, Vec<V>),
    Newtype(&'static str, Box<V>),
    Struct(&'static str, Vec<(&'static str, V)>),
    UnitVariant(&'static str, u32, &'static str),
    NewtypeVariant(&'static str, u32, &'static str, Box<V>),
    TupleVariant(&'static str, u32, &'static str, Vec<V>),
    StructVariant(&'static str, u32, &'static str, Vec<(&'static str, V)>),
    Map(Vec<(V, V)>),
}

#[derive(Debug, Clone)]
pub struct Error(pub String);
impl fmt::Display for Error {
    fn fmt(&self, f: &mut fmt::Formatter<'_>) -> fmt::Result {
        f.write_str(&self.0)
    }
}
impl std::error::Error for Error {}
impl ser::Error for Error {
    fn custom<T: fmt::Display>(msg: T) -> Self {
        Error(msg.to_string())
    }
}
impl de::Error for Error {
    fn custom<T: fmt::Display>(msg: T) -> Self {
        Error(msg.to_string())
    }
}

// ------------------------------------------------------------------------------------------
// Serializer
// ------------------------------------------------------------------------------------------

/// Serialise into a value tree.  Panic-safe: a value whose own Serialize impl panics (a
/// broken library invariant) yields an Error instead of taking the monitor down.
pub fn to_v<T: Serialize + ?Sized>(t: &T) -> Result<V, Error> {
    match crate::mon::guard(|| t.serialize(Ser)) {
        Ok(r) => r,
        Err(p) => Err(Error(format!("panic while serialising at {}: {}", p.site, p.msg))),
    }
}

/// Debug rendering, panic-safe for the same reason.
pub fn debug_of<T: fmt::Debug + ?Sized>(t: &T) -> String {
    match crate::mon::guard(|| format!("{:?}", t)) {
        Ok(s) => s,
        Err(p) => format!("<Debug panicked at {}: {}>", p.site, p.msg),
    }
}

struct Ser;

struct SeqSer {
    items: Vec<V>,
    kind: SeqKind,
    /// the element count announced up front (formats with length prefixes trust it)
    declared: Option<usize>,
}
enum SeqKind {
    Seq,
    Tuple,
    TupleStruct(&'static str),
    TupleVariant(&'static str, u32, &'static str),
}
struct StructSer {
    name: &'static str,
    fields: Vec<(&'static str, V)>,
    variant: Option<(u32, &'static str)>,
    declared: usize,
}
struct MapSer {
    items: Vec<(V, V)>,
    key: Option<V>,
}

impl ser::Serializer for Ser {
    type Ok = V;
    type Error = Error;
    type SerializeSeq = SeqSer;
    type SerializeTuple = SeqSer;
    type SerializeTupleStruct = SeqSer;
    type SerializeTupleVariant = SeqSer;
    type SerializeMap = MapSer;
    type SerializeStruct = StructSer;
    type SerializeStructVariant = StructSer;

    fn serialize_bool(self, v: bool) -> Result<V, Error> {
        Ok(V::Bool(v))
    }
    fn serialize_i8(self, v: i8) -> Result<V, Error> {
        Ok(V::I8(v))
    }
    fn serialize_i16(self, v: i16) -> Result<V, Error> {
        Ok(V::I16(v))
    }
    fn serialize_i32(self, v: i32) -> Result<V, Error> {
        Ok(V::I32(v))
    }
    fn serialize_i64(self, v: i64) -> Result<V, Error> {
        Ok(V::I64(v))
    }
    fn serialize_u8(self, v: u8) -> Result<V, Error> {
        Ok(V::U8(v))
    }
    fn serialize_u16(self, v: u16) -> Result<V, Error> {
        Ok(V::U16(v))
    }
    fn serialize_u32(self, v: u32) -> Result<V, Error> {
        Ok(V::U32(v))
    }
    fn serialize_u64(self, v: u64) -> Result<V, Error> {
        Ok(V::U64(v))
    }
    fn serialize_f32(self, v: f32) -> Result<V, Error> {
        Ok(V::F32(v))
    }
    fn serialize_f64(self, v: f64) -> Result<V, Error> {
        Ok(V::F64(v))
    }
    fn serialize_char(self, v: char) -> Result<V, Error> {
        Ok(V::Char(v))
    }
    fn serialize_str(self, v: &str) -> Result<V, Error> {
        Ok(V::Str(v.to_string()))
    }
    fn serialize_bytes(self, v: &[u8]) -> Result<V, Error> {
        Ok(V::Seq(v.iter().map(|b| V::U8(*b)).collect()))
    }
    fn serialize_none(self) -> Result<V, Error> {
        Ok(V::None)
    }
    fn serialize_some<T: ?Sized + Serialize>(self, value: &T) -> Result<V, Error> {
        Ok(V::Some(Box::new(value.serialize(Ser)?)))
    }
    fn serialize_unit(self) -> Result<V, Error> {
        Ok(V::Unit)
    }
    fn serialize_unit_struct(self, _name: &'static str) -> Result<V, Error> {
        Ok(V::Unit)
    }
    fn serialize_unit_variant(self, name: &'static str, idx: u32, variant: &'static str) -> Result<V, Error> {
        Ok(V::UnitVariant(name, idx, variant))
    }
    fn serialize_newtype_struct<T: ?Sized + Serialize>(self, name: &'static str, value: &T) -> Result<V, Error> {
        Ok(V::Newtype(name, Box::new(value.serialize(Ser)?)))
    }
    fn serialize_newtype_variant<T: ?Sized + Serialize>(self, name: &'static str, idx: u32, variant: &'static str, value: &T) -> Result<V, Error> {
        Ok(V::NewtypeVariant(name, idx, variant, Box::new(value.serialize(Ser)?)))
    }
    fn serialize_seq(self, len: Option<usize>) -> Result<SeqSer, Error> {
        Ok(SeqSer { items: Vec::with_capacity(len.unwrap_or(0).min(4096)), kind: SeqKind::Seq, declared: len })
    }
    fn serialize_tuple(self, len: usize) -> Result<SeqSer, Error> {
        Ok(SeqSer { items: Vec::with_capacity(len), kind: SeqKind::Tuple, declared: Some(len) })
    }
    fn serialize_tuple_struct(self, name: &'static str, len: usize) -> Result<SeqSer, Error> {
        Ok(SeqSer { items: Vec::with_capacity(len), kind: SeqKind::TupleStruct(name), declared: Some(len) })
    }
    fn serialize_tuple_variant(self, name: &'static str, idx: u32, variant: &'static str, len: usize) -> Result<SeqSer, Error> {
        Ok(SeqSer { items: Vec::with_capacity(len), kind: SeqKind::TupleVariant(name, idx, variant), declared: Some(len) })
    }
    fn serialize_map(self, _len: Option<usize>) -> Result<MapSer, Error> {
        Ok(MapSer { items: Vec::new(), key: None })
    }
    fn serialize_struct(self, name: &'static str, len: usize) -> Result<StructSer, Error> {
        Ok(StructSer { name, fields: Vec::with_capacity(len), variant: None, declared: len })
    }
    fn serialize_struct_variant(self, name: &'static str, idx: u32, variant: &'static str, len: usize) -> Result<StructSer, Error> {
        Ok(StructSer { name, fields: Vec::with_capacity(len), variant: Some((idx, variant)), declared: len })
    }
    fn is_human_readable(&self) -> bool {
        true
    }
}

impl SeqSer {
    /// Like a length-prefixed format this one holds the serialiser to the count it announced.
    fn finish(self) -> Result<V, Error> {
        if let Some(d) = self.declared {
            if d != self.items.len() {
                return Err(Error(format!("sequence announced {} element(s) up front but {} were written", d, self.items.len())));
            }
        }
        Ok(match self.kind {
            SeqKind::Seq => V::Seq(self.items),
            SeqKind::Tuple => V::Tuple(self.items),
            SeqKind::TupleStruct(n) => V::TupleStruct(n, self.items),
            SeqKind::TupleVariant(n, i, v) => V::TupleVariant(n, i, v, self.items),
        })
    }
}
impl ser::SerializeSeq for SeqSer {
    type Ok = V;
    type Error = Error;
    fn serialize_element<T: ?Sized + Serialize>(&mut self, value: &T) -> Result<(), Error> {
        self.items.push(value.serialize(Ser)?);
        Ok(())
    }
    fn end(self) -> Result<V, Error> {
        self.finish()
    }
}
impl ser::SerializeTuple for SeqSer {
    type Ok = V;
    type Error = Error;
    fn serialize_element<T: ?Sized + Serialize>(&mut self, value: &T) -> Result<(), Error> {
        self.items.push(value.serialize(Ser)?);
        Ok(())
    }
    fn end(self) -> Result<V, Error> {
        self.finish()
    }
}
impl ser::SerializeTupleStruct for SeqSer {
    type Ok = V;
    type Error = Error;
    fn serialize_field<T: ?Sized + Serialize>(&mut self, value: &T) -> Result<(), Error> {
        self.items.push(value.serialize(Ser)?);
        Ok(())
    }
    fn end(self) -> Result<V, Error> {
        self.finish()
    }
}
impl ser::SerializeTupleVariant for SeqSer {
    type Ok = V;
    type Error = Error;
    fn serialize_field<T: ?Sized + Serialize>(&mut self, value: &T) -> Result<(), Error> {
        self.items.push(value.serialize(Ser)?);
        Ok(())
    }
    fn end(self) -> Result<V, Error> {
        self.finish()
    }
}
impl ser::SerializeMap for MapSer {
    type Ok = V;
    type Error = Error;
    fn serialize_key<T: ?Sized + Serialize>(&mut self, key: &T) -> Result<(), Error> {
        self.key = Some(key.serialize(Ser)?);
        Ok(())
    }
    fn serialize_value<T: ?Sized + Serialize>(&mut self, value: &T) -> Result<(), Error> {
        let k = self.key.take().ok_or_else(|| Error("value without key".into()))?;
        self.items.push((k, value.serialize(Ser)?));
        Ok(())
    }
    fn end(self) -> Result<V, Error> {
        Ok(V::Map(self.items))
    }
}
impl ser::SerializeStruct for StructSer {
    type Ok = V;
    type Error = Error;
    fn serialize_field<T: ?Sized + Serialize>(&mut self, key: &'static str, value: &T) -> Result<(), Error> {
        self.fields.push((key, value.serialize(Ser)?));
        Ok(())
    }
    fn end(self) -> Result<V, Error> {
        if self.declared != self.fields.len() {
            return Err(Error(format!("struct {} announced {} field(s) but {} were written", self.name, self.declared, self.fields.len())));
        }
        Ok(match self.variant {
            None => V::Struct(self.name, self.fields),
            Some((i, v)) => V::StructVariant(self.name, i, v, self.fields),
        })
    }
}
impl ser::SerializeStructVariant for StructSer {
    type Ok = V;
    type Error = Error;
    fn serialize_field<T: ?Sized + Serialize>(&mut self, key: &'static str, value: &T) -> Result<(), Error> {
        self.fields.push((key, value.serialize(Ser)?));
        Ok(())
    }
    fn end(self) -> Result<V, Error> {
        if self.declared != self.fields.len() {
            return Err(Error(format!("struct {} announced {} field(s) but {} were written", self.name, self.declared, self.fields.len())));
        }
        Ok(match self.variant {
            None => V::Struct(self.name, self.fields),
            Some((i, v)) => V::StructVariant(self.name, i, v, self.fields),
        })
    }
}

// ------------------------------------------------------------------------------------------
// Deserializer
// ------------------------------------------------------------------------------------------

pub fn from_v<T: DeserializeOwned>(v: &V) -> Result<T, Error> {
    T::deserialize(De(v))
}

#[derive(Clone, Copy)]
struct De<'a>(&'a V);

struct SeqAcc<'a> {
    it: std::slice::Iter<'a, V>,
}
impl<'de, 'a> SeqAccess<'de> for SeqAcc<'a> {
    type Error = Error;
    fn next_element_seed<T: DeserializeSeed<'de>>(&mut self, seed: T) -> Result<Option<T::Value>, Error> {
        match self.it.next() {
            Some(v) => seed.deserialize(De(v)).map(Some),
            None => Ok(None),
        }
    }
    fn size_hint(&self) -> Option<usize> {
        Some(self.it.len())
    }
}

struct FieldsAcc<'a> {
    it: std::slice::Iter<'a, (&'static str, V)>,
    cur: Option<&'a V>,
}
impl<'de, 'a> MapAccess<'de> for FieldsAcc<'a> {
    type Error = Error;
    fn next_key_seed<K: DeserializeSeed<'de>>(&mut self, seed: K) -> Result<Option<K::Value>, Error> {
        match self.it.next() {
            Some((k, v)) => {
                self.cur = Some(v);
                seed.deserialize(StrDe(k)).map(Some)
            }
            None => Ok(None),
        }
    }
    fn next_value_seed<T: DeserializeSeed<'de>>(&mut self, seed: T) -> Result<T::Value, Error> {
        match self.cur.take() {
            Some(v) => seed.deserialize(De(v)),
            None => Err(Error("value without key".into())),
        }
    }
}

struct MapAcc<'a> {
    it: std::slice::Iter<'a, (V, V)>,
    cur: Option<&'a V>,
}
impl<'de, 'a> MapAccess<'de> for MapAcc<'a> {
    type Error = Error;
    fn next_key_seed<K: DeserializeSeed<'de>>(&mut self, seed: K) -> Result<Option<K::Value>, Error> {
        match self.it.next() {
            Some((k, v)) => {
                self.cur = Some(v);
                seed.deserialize(De(k)).map(Some)
            }
            None => Ok(None),
        }
    }
    fn next_value_seed<T: DeserializeSeed<'de>>(&mut self, seed: T) -> Result<T::Value, Error> {
        match self.cur.take() {
            Some(v) => seed.deserialize(De(v)),
            None => Err(Error("value without key".into())),
        }
    }
}

/// deserializer for identifiers (field and variant names)
struct StrDe<'a>(&'a str);
impl<'de, 'a> de::Deserializer<'de> for StrDe<'a> {
    type Error = Error;
    fn deserialize_any<Vi: Visitor<'de>>(self, visitor: Vi) -> Result<Vi::Value, Error> {
        visitor.visit_str(self.0)
    }
    serde::forward_to_deserialize_any! {
        bool i8 i16 i32 i64 i128 u8 u16 u32 u64 u128 f32 f64 char str string bytes byte_buf option unit
        unit_struct newtype_struct seq tuple tuple_struct map struct enum identifier ignored_any
    }
}

struct EnumAcc<'a> {
    variant: &'a str,
    content: Option<&'a V>,
    tuple: Option<&'a [V]>,
    fields: Option<&'a [(&'static str, V)]>,
}
impl<'de, 'a> EnumAccess<'de> for EnumAcc<'a> {
    type Error = Error;
    type Variant = Self;
    fn variant_seed<S: DeserializeSeed<'de>>(self, seed: S) -> Result<(S::Value, Self), Error> {
        let v = seed.deserialize(StrDe(self.variant))?;
        Ok((v, self))
    }
}
impl<'de, 'a> VariantAccess<'de> for EnumAcc<'a> {
    type Error = Error;
    fn unit_variant(self) -> Result<(), Error> {
        if self.content.is_none() && self.tuple.is_none() && self.fields.is_none() {
            Ok(())
        } else {
            Err(Error("expected unit variant".into()))
        }
    }
    fn newtype_variant_seed<T: DeserializeSeed<'de>>(self, seed: T) -> Result<T::Value, Error> {
        match self.content {
            Some(v) => seed.deserialize(De(v)),
            None => Err(Error("expected newtype variant".into())),
        }
    }
    fn tuple_variant<Vi: Visitor<'de>>(self, _len: usize, visitor: Vi) -> Result<Vi::Value, Error> {
        match self.tuple {
            Some(t) => visitor.visit_seq(SeqAcc { it: t.iter() }),
            None => Err(Error("expected tuple variant".into())),
        }
    }
    fn struct_variant<Vi: Visitor<'de>>(self, _fields: &'static [&'static str], visitor: Vi) -> Result<Vi::Value, Error> {
        match self.fields {
            Some(f) => visitor.visit_map(FieldsAcc { it: f.iter(), cur: None }),
            None => Err(Error("expected struct variant".into())),
        }
    }
}

impl<'de, 'a> de::Deserializer<'de> for De<'a> {
    type Error = Error;

    fn deserialize_any<Vi: Visitor<'de>>(self, visitor: Vi) -> Result<Vi::Value, Error> {
        match self.0 {
            V::Bool(x) => visitor.visit_bool(*x),
            V::U8(x) => visitor.visit_u8(*x),
            V::U16(x) => visitor.visit_u16(*x),
            V::U32(x) => visitor.visit_u32(*x),
            V::U64(x) => visitor.visit_u64(*x),
            V::I8(x) => visitor.visit_i8(*x),
            V::I16(x) => visitor.visit_i16(*x),
            V::I32(x) => visitor.visit_i32(*x),
            V::I64(x) => visitor.visit_i64(*x),
            V::F32(x) => visitor.visit_f32(*x),
            V::F64(x) => visitor.visit_f64(*x),
            V::Char(x) => visitor.visit_char(*x),
            V::Str(s) => visitor.visit_str(s),
            V::Unit => visitor.visit_unit(),
            V::None => visitor.visit_none(),
            V::Some(x) => visitor.visit_some(De(x)),
            V::Seq(xs) | V::Tuple(xs) | V::TupleStruct(_, xs) => visitor.visit_seq(SeqAcc { it: xs.iter() }),
            V::Newtype(_, x) => visitor.visit_newtype_struct(De(x)),
            V::Struct(_, fs) => visitor.visit_map(FieldsAcc { it: fs.iter(), cur: None }),
            V::Map(kv) => visitor.visit_map(MapAcc { it: kv.iter(), cur: None }),
            V::UnitVariant(_, _, name) => visitor.visit_enum(EnumAcc { variant: name, content: None, tuple: None, fields: None }),
            V::NewtypeVariant(_, _, name, x) => visitor.visit_enum(EnumAcc { variant: name, content: Some(x), tuple: None, fields: None }),
            V::TupleVariant(_, _, name, xs) => visitor.visit_enum(EnumAcc { variant: name, content: None, tuple: Some(xs), fields: None }),
            V::StructVariant(_, _, name, fs) => visitor.visit_enum(EnumAcc { variant: name, content: None, tuple: None, fields: Some(fs) }),
        }
    }
    fn deserialize_option<Vi: Visitor<'de>>(self, visitor: Vi) -> Result<Vi::Value, Error> {
        match self.0 {
            V::None | V::Unit => visitor.visit_none(),
            V::Some(x) => visitor.visit_some(De(x)),
            _ => visitor.visit_some(self),
        }
    }
    fn deserialize_newtype_struct<Vi: Visitor<'de>>(self, _name: &'static str, visitor: Vi) -> Result<Vi::Value, Error> {
        match self.0 {
            V::Newtype(_, x) => visitor.visit_newtype_struct(De(x)),
            _ => visitor.visit_newtype_struct(self),
        }
    }
    fn deserialize_enum<Vi: Visitor<'de>>(self, _name: &'static str, _variants: &'static [&'static str], visitor: Vi) -> Result<Vi::Value, Error> {
        match self.0 {
            V::Str(s) => visitor.visit_enum(EnumAcc { variant: s, content: None, tuple: None, fields: None }),
            _ => self.deserialize_any(visitor),
        }
    }
    fn is_human_readable(&self) -> bool {
        true
    }
    serde::forward_to_deserialize_any! {
        bool i8 i16 i32 i64 i128 u8 u16 u32 u64 u128 f32 f64 char str string bytes byte_buf unit
        unit_struct seq tuple tuple_struct map struct identifier ignored_any
    }
}

// ------------------------------------------------------------------------------------------
// JSON (lossless, tagged) for replay files; and a compact lossy rendering for evidence
// ------------------------------------------------------------------------------------------

fn leak(s: &str) -> &'static str {
    use std::collections::HashSet;
    use std::sync::Mutex;
    static POOL: Mutex<Option<HashSet<&'static str>>> = Mutex::new(None);
    let mut g = POOL.lock().unwrap();
    let set = g.get_or_insert_with(HashSet::new);
    if let Some(x) = set.get(s) {
        return x;
    }
    let l: &'static str = Box::leak(s.to_string().into_boxed_str());
    set.insert(l);
    l
}

pub fn v_to_json(v: &V) -> Value {
    match v {
        V::Bool(x) => json!({"b": x}),
        V::U8(x) => json!({"u8": x}),
        V::U16(x) => json!({"u16": x}),
        V::U32(x) => json!({"u32": x}),
        V::U64(x) => json!({"u64": x.to_string()}),
        V::I8(x) => json!({"i8": x}),
        V::I16(x) => json!({"i16": x}),
        V::I32(x) => json!({"i32": x}),
        V::I64(x) => json!({"i64": x.to_string()}),
        V::F32(x) => json!({"f32": format!("{:08x}", x.to_bits()), "~": format!("{:e}", x)}),
        V::F64(x) => json!({"f64": format!("{:016x}", x.to_bits()), "~": format!("{:e}", x)}),
        V::Char(x) => json!({"c": *x as u32}),
        V::Str(s) => json!({"s": s}),
        V::Unit => json!({"unit": 0}),
        V::None => json!({"none": 0}),
        V::Some(x) => json!({"some": v_to_json(x)}),
        V::Seq(xs) => json!({"seq": xs.iter().map(v_to_json).collect::<Vec<_>>()}),
        V::Tuple(xs) => json!({"tuple": xs.iter().map(v_to_json).collect::<Vec<_>>()}),
        V::TupleStruct(n, xs) => json!({"tstruct": n, "items": xs.iter().map(v_to_json).collect::<Vec<_>>()}),
        V::Newtype(n, x) => json!({"newtype": n, "inner": v_to_json(x)}),
        V::Struct(n, fs) => json!({"struct": n, "fields": fs.iter().map(|(k, v)| json!([k, v_to_json(v)])).collect::<Vec<_>>()}),
        V::UnitVariant(n, i, var) => json!({"uvariant": [n, i, var]}),
        V::NewtypeVariant(n, i, var, x) => json!({"nvariant": [n, i, var], "inner": v_to_json(x)}),
        V::TupleVariant(n, i, var, xs) => json!({"tvariant": [n, i, var], "items": xs.iter().map(v_to_json).collect::<Vec<_>>()}),
        V::StructVariant(n, i, var, fs) => json!({"svariant": [n, i, var], "fields": fs.iter().map(|(k, v)| json!([k, v_to_json(v)])).collect::<Vec<_>>()}),
        V::Map(kv) => json!({"map": kv.iter().map(|(k, v)| json!([v_to_json(k), v_to_json(v)])).collect::<Vec<_>>()}),
    }
}

pub fn json_to_v(j: &Value) -> Option<V> {
    let o = j.as_object()?;
    let items = |k: &str| -> Option<Vec<V>> { o.get(k)?.as_array()?.iter().map(json_to_v).collect() };
    let fields = |k: &str| -> Option<Vec<(&'static str, V)>> {
        o.get(k)?.as_array()?.iter().map(|p| Some((leak(p.get(0)?.as_str()?), json_to_v(p.get(1)?)?))).collect()
    };
    let variant = |k: &str| -> Option<(&'static str, u32, &'static str)> {
        let a = o.get(k)?.as_array()?;
        Some((leak(a.get(0)?.as_str()?), a.get(1)?.as_u64()? as u32, leak(a.get(2)?.as_str()?)))
    };
    if let Some(x) = o.get("b") {
        return Some(V::Bool(x.as_bool()?));
    }
    if let Some(x) = o.get("u8") {
        return Some(V::U8(x.as_u64()? as u8));
    }
    if let Some(x) = o.get("u16") {
        return Some(V::U16(x.as_u64()? as u16));
    }
    if let Some(x) = o.get("u32") {
        return Some(V::U32(x.as_u64()? as u32));
    }
    if let Some(x) = o.get("u64") {
        return Some(V::U64(x.as_str()?.parse().ok()?));
    }
    if let Some(x) = o.get("i8") {
        return Some(V::I8(x.as_i64()? as i8));
    }
    if let Some(x) = o.get("i16") {
        return Some(V::I16(x.as_i64()? as i16));
    }
    if let Some(x) = o.get("i32") {
        return Some(V::I32(x.as_i64()? as i32));
    }
    if let Some(x) = o.get("i64") {
        return Some(V::I64(x.as_str()?.parse().ok()?));
    }
    if let Some(x) = o.get("f32") {
        return Some(V::F32(f32::from_bits(u32::from_str_radix(x.as_str()?, 16).ok()?)));
    }
    if let Some(x) = o.get("f64") {
        return Some(V::F64(f64::from_bits(u64::from_str_radix(x.as_str()?, 16).ok()?)));
    }
    if let Some(x) = o.get("c") {
        return Some(V::Char(char::from_u32(x.as_u64()? as u32)?));
    }
    if let Some(x) = o.get("s") {
        return Some(V::Str(x.as_str()?.to_string()));
    }
    if o.contains_key("unit") {
        return Some(V::Unit);
    }
    if o.contains_key("none") {
        return Some(V::None);
    }
    if let Some(x) = o.get("some") {
        return Some(V::Some(Box::new(json_to_v(x)?)));
    }
    if o.contains_key("seq") {
        return Some(V::Seq(items("seq")?));
    }
    if o.contains_key("tuple") {
        return Some(V::Tuple(items("tuple")?));
    }
    if let Some(n) = o.get("tstruct") {
        return Some(V::TupleStruct(leak(n.as_str()?), items("items")?));
    }
    if let Some(n) = o.get("newtype") {
        return Some(V::Newtype(leak(n.as_str()?), Box::new(json_to_v(o.get("inner")?)?)));
    }
    if let Some(n) = o.get("struct") {
        return Some(V::Struct(leak(n.as_str()?), fields("fields")?));
    }
    if o.contains_key("uvariant") {
        let (n, i, v) = variant("uvariant")?;
        return Some(V::UnitVariant(n, i, v));
    }
    if o.contains_key("nvariant") {
        let (n, i, v) = variant("nvariant")?;
        return Some(V::NewtypeVariant(n, i, v, Box::new(json_to_v(o.get("inner")?)?)));
    }
    if o.contains_key("tvariant") {
        let (n, i, v) = variant("tvariant")?;
        return Some(V::TupleVariant(n, i, v, items("items")?));
    }
    if o.contains_key("svariant") {
        let (n, i, v) = variant("svariant")?;
        return Some(V::StructVariant(n, i, v, fields("fields")?));
    }
    if let Some(kv) = o.get("map") {
        let v: Option<Vec<(V, V)>> = kv.as_array()?.iter().map(|p| Some((json_to_v(p.get(0)?)?, json_to_v(p.get(1)?)?))).collect();
        return Some(V::Map(v?));
    }
    None
}

/// Walk every float leaf.
pub fn for_each_float(v: &V, f: &mut dyn FnMut(f64, bool)) {
    match v {
        V::F32(x) => f(*x as f64, x.is_finite()),
        V::F64(x) => f(*x, x.is_finite()),
        V::Some(x) | V::Newtype(_, x) | V::NewtypeVariant(_, _, _, x) => for_each_float(x, f),
        V::Seq(xs) | V::Tuple(xs) | V::TupleStruct(_, xs) | V::TupleVariant(_, _, _, xs) => xs.iter().for_each(|x| for_each_float(x, f)),
        V::Struct(_, fs) | V::StructVariant(_, _, _, fs) => fs.iter().for_each(|(_, x)| for_each_float(x, f)),
        V::Map(kv) => kv.iter().for_each(|(k, x)| {
            for_each_float(k, f);
            for_each_float(x, f)
        }),
        _ => {}
    }
}

pub fn has_nan(v: &V) -> bool {
    let mut n = false;
    for_each_float(v, &mut |x, _| {
        if x.is_nan() {
            n = true
        }
    });
    n
}

pub fn has_nonfinite(v: &V) -> bool {
    let mut n = false;
    for_each_float(v, &mut |_, fin| {
        if !fin {
            n = true
        }
    });
    n
}

/// structural hash (floats by bit pattern), for distinct counting
pub fn hash_v(v: &V) -> u64 {
    use crate::rng::mix;
    fn go(v: &V, h: u64) -> u64 {
        match v {
            V::Bool(x) => mix(h, 1 + *x as u64),
            V::U8(x) => mix(h, 0x100 + *x as u64),
            V::U16(x) => mix(h, 0x10000 + *x as u64),
            V::U32(x) => mix(h ^ 3, *x as u64),
            V::U64(x) => mix(h ^ 4, *x),
            V::I8(x) => mix(h ^ 5, *x as u64),
            V::I16(x) => mix(h ^ 6, *x as u64),
            V::I32(x) => mix(h ^ 7, *x as u64),
            V::I64(x) => mix(h ^ 8, *x as u64),
            V::F32(x) => mix(h ^ 9, x.to_bits() as u64),
            V::F64(x) => mix(h ^ 10, x.to_bits()),
            V::Char(x) => mix(h ^ 11, *x as u64),
            V::Str(s) => mix(h ^ 12, crate::rng::hash_bytes(s.as_bytes())),
            V::Unit => mix(h, 13),
            V::None => mix(h, 14),
            V::Some(x) => go(x, mix(h, 15)),
            V::Newtype(_, x) => go(x, mix(h, 16)),
            V::NewtypeVariant(_, i, _, x) => go(x, mix(h ^ 17, *i as u64)),
            V::UnitVariant(_, i, _) => mix(h ^ 18, *i as u64),
            V::Seq(xs) | V::Tuple(xs) | V::TupleStruct(_, xs) | V::TupleVariant(_, _, _, xs) => xs.iter().fold(mix(h ^ 19, xs.len() as u64), |a, x| go(x, a)),
            V::Struct(_, fs) | V::StructVariant(_, _, _, fs) => fs.iter().fold(mix(h ^ 20, fs.len() as u64), |a, (_, x)| go(x, a)),
            V::Map(kv) => kv.iter().fold(mix(h ^ 21, kv.len() as u64), |a, (k, x)| go(x, go(k, a))),
        }
    }
    go(v, 0x1234)
}
