//! C01 (encode/decode normal form) and C09 (encoding is total, frames well formed).
//! Both judge the same generated stream of Message values: C09 judges every message,
//! C01 only those the encoder accepts.

use crate::framing::msg_class;
use crate::gen;
use crate::mon::{guard, hex, hex_short, unhex, Ctx, PanicEv};
use crate::mutate::{self, Templates};
use crate::oracle::{bits, crc, sig};
use crate::par;
use crate::rng::{hash_bytes, Rng};
use crate::vtree::{self, V};
use crate::{Outcome, Params};
use rtcm_rs::prelude::*;
use serde_json::{json, Value};

#[derive(Clone, Copy, PartialEq, Eq)]
pub enum Which {
    C01,
    C09,
}

pub use crate::io::{build, decode, is_typed};

fn variant_name(m: &Message) -> String {
    let d = vtree::debug_of(m);
    d.split(|c: char| c == '(' || c == ' ').next().unwrap_or("").to_string()
}

/// "duplicate satellite/signal keys or unrecognised signal identifiers in its bias lists"
pub fn bias_exception(m: &Message) -> bool {
    match m {
        Message::Msg1059(t) => {
            let mut keys: Vec<(u8, u8, char)> = Vec::new();
            for b in t.biases.iter() {
                let k = (b.satellite_id, b.signal_id.band(), b.signal_id.attribute());
                if !sig::SSR_GPS.iter().any(|s| s.1 == k.1 && s.2 == k.2) || keys.contains(&k) {
                    return true;
                }
                keys.push(k);
            }
            false
        }
        Message::Msg1065(t) => {
            let mut keys: Vec<(u8, u8, char)> = Vec::new();
            for b in t.biases.iter() {
                let k = (b.satellite_id, b.signal_id.band(), b.signal_id.attribute());
                if !sig::SSR_GLO.iter().any(|s| s.1 == k.1 && s.2 == k.2) || keys.contains(&k) {
                    return true;
                }
                keys.push(k);
            }
            false
        }
        Message::Msg1230(t) => {
            let mut keys: Vec<(u8, char)> = Vec::new();
            for b in t.glo_code_phase_biases.iter() {
                let k = (b.signal_id.band(), b.signal_id.attribute());
                if !sig::SSR_GLO.iter().any(|s| s.1 == k.0 && s.2 == k.1) || keys.contains(&k) {
                    return true;
                }
                keys.push(k);
            }
            false
        }
        _ => false,
    }
}

/// equality "up to the order of satellite groups in the 1059/1065 code-bias lists"
pub fn eq_up_to_groups(a: &Message, b: &Message) -> bool {
    match (a, b) {
        (Message::Msg1059(x), Message::Msg1059(y)) => {
            let mut x = x.clone();
            let mut y = y.clone();
            x.biases.as_mut_slice().sort_by_key(|e| e.satellite_id);
            y.biases.as_mut_slice().sort_by_key(|e| e.satellite_id);
            x == y
        }
        (Message::Msg1065(x), Message::Msg1065(y)) => {
            let mut x = x.clone();
            let mut y = y.clone();
            x.biases.as_mut_slice().sort_by_key(|e| e.satellite_id);
            y.biases.as_mut_slice().sort_by_key(|e| e.satellite_id);
            x == y
        }
        _ => a == b,
    }
}

fn msg_replay(m: &Message) -> Value {
    match vtree::to_v(m) {
        Ok(v) => json!({"kind":"message","vtree":vtree::v_to_json(&v)}),
        Err(e) => json!({"kind":"message","error":e.0}),
    }
}

fn short_debug(m: &Message) -> String {
    let s = vtree::debug_of(m);
    if s.len() > 700 {
        let mut e = 700;
        while !s.is_char_boundary(e) {
            e -= 1;
        }
        format!("{}...({} chars)", &s[..e], s.len())
    } else {
        s
    }
}

/// the frame-level clauses of C09, applied to one returned frame
pub fn well_formed(ctx: &mut Ctx, m: &Message, f: &[u8], builder: &'static str) {
    let num = m.number();
    let mut bad: Option<(&'static str, String)> = None;
    if num.is_none() {
        bad = Some(("no_wire_form_accepted", format!("{} was encoded", msg_class(m))));
    } else if f.len() < 8 || f.len() > 1029 {
        bad = Some(("length_range", format!("frame length {}", f.len())));
    } else if f[0] != 0xD3 {
        bad = Some(("preamble", format!("first byte {:#x}", f[0])));
    } else if f[1] & 0xFC != 0 {
        bad = Some(("reserved_bits", format!("byte 1 = {:#x}", f[1])));
    } else if ((((f[1] & 3) as usize) << 8) | f[2] as usize) != f.len() - 6 {
        bad = Some(("length_field", format!("length field {} but payload {}", (((f[1] & 3) as usize) << 8) | f[2] as usize, f.len() - 6)));
    } else if bits::read(f, 24, 12) as u16 != num.unwrap() {
        bad = Some(("message_number", format!("first 12 payload bits {} but message is {}", bits::read(f, 24, 12), num.unwrap())));
    } else {
        let c = crc::crc24q(&f[..f.len() - 3]);
        let t = ((f[f.len() - 3] as u32) << 16) | ((f[f.len() - 2] as u32) << 8) | f[f.len() - 1] as u32;
        if c != t {
            bad = Some(("checksum", format!("trailing {:06x}, reference CRC-24Q {:06x}", t, c)));
        }
    }
    if let Some((what, detail)) = bad {
        ctx.violation(format!("C09.well_formed|{}|{}", what, builder), "C09.well_formed", format!("{} ({}): {}; frame={}; message={}", what, builder, detail, hex_short(f), short_debug(m)), msg_replay(m));
    }
}

/// C09 oracle on one message.  Returns the encoder result for reuse.
pub fn judge_c09(ctx: &mut Ctx, m: &Message, on: bool) -> Option<Result<Vec<u8>, String>> {
    let num = m.number();
    let r = match build(m) {
        Ok(r) => r,
        Err(p) => {
            if on {
                ctx.panic_violation("C09.no_panic", &p, &format!("build_message({})", variant_name(m)), msg_replay(m));
            } else {
                ctx.count("encode_panics_left_to_C09");
            }
            return None;
        }
    };
    if !on {
        return Some(r);
    }
    match &r {
        Ok(f) => {
            ctx.count("encode_ok");
            well_formed(ctx, m, f, "fresh_builder");
        }
        Err(e) => {
            ctx.count_dyn(format!("encode_err:{}", e));
        }
    }
    Some(r)
}

/// C01 oracle for a message the encoder accepted (r1 = its frame).
pub fn judge_c01(ctx: &mut Ctx, m: &Message, r1: &[u8], origin: &'static str) {
    let num = m.number();
    let d1 = match decode(r1) {
        Ok(Some(d)) => d,
        Ok(None) => {
            ctx.violation("C01.own_frame_rejected".into(), "C01.own_frame_rejected", format!("frame produced by the encoder is not accepted as a frame: {}", hex_short(r1)), msg_replay(m));
            return;
        }
        Err(_) => {
            ctx.count("decode_panics_left_to_C02");
            return;
        }
    };
    if !is_typed(&d1) || d1.number() != num {
        ctx.violation(
            format!("C01.decodes_to_same_type|{}|{}", num.unwrap_or(0), msg_class(&d1).split('(').next().unwrap_or("")),
            "C01.decodes_to_same_type",
            format!("[{}] message {} encodes to {} which decodes to {}; message={}", origin, num.unwrap_or(0), hex_short(r1), msg_class(&d1), short_debug(m)),
            msg_replay(m),
        );
        return;
    }
    let r2 = match build(&d1) {
        Ok(Ok(r)) => r,
        Ok(Err(e)) => {
            ctx.violation(
                format!("C01.reencode_refused|{}|{}", num.unwrap_or(0), e),
                "C01.reencode_refused",
                format!("[{}] message {}: decoder output of the encoder's own frame is refused by the encoder with {}; frame={}", origin, num.unwrap_or(0), e, hex_short(r1)),
                msg_replay(m),
            );
            return;
        }
        Err(_) => {
            ctx.count("encode_panics_left_to_C09");
            return;
        }
    };
    let exception = bias_exception(m);
    if exception {
        ctx.count("bias_exception_cases(dups_or_unrecognised)");
        match decode(&r2) {
            Ok(Some(d2)) => {
                if d2 != d1 {
                    ctx.violation(format!("C01.twice_decoded_equal|{}", num.unwrap_or(0)), "C01.twice_decoded_equal", format!("[{}] message {} (with duplicate/unrecognised bias keys): decode(encode(decode(encode(m)))) differs from decode(encode(m))", origin, num.unwrap_or(0)), msg_replay(m));
                }
            }
            Ok(None) => ctx.violation("C01.own_frame_rejected".into(), "C01.own_frame_rejected", "second frame rejected".into(), msg_replay(m)),
            Err(_) => ctx.count("decode_panics_left_to_C02"),
        }
    } else if r2 != r1 {
        // first differing bit for the report
        let mut first = 0;
        let n = r1.len().min(r2.len());
        while first < n * 8 && bits::get_bit(r1, first) == bits::get_bit(&r2, first) {
            first += 1;
        }
        ctx.violation(
            format!("C01.normal_form|{}", num.unwrap_or(0)),
            "C01.normal_form",
            format!(
                "[{}] message {}: re-encoding the decoded message does not reproduce the frame (lengths {} / {}, first difference at payload bit {}); r1={} r2={}; message={}",
                origin,
                num.unwrap_or(0),
                r1.len(),
                r2.len(),
                first as i64 - 24,
                hex_short(r1),
                hex_short(&r2),
                short_debug(m)
            ),
            msg_replay(m),
        );
    }
}

/// the fixed-point clause for a message obtained by decoding a frame
pub fn judge_c01_fixed_point(ctx: &mut Ctx, d: &Message, r: &[u8], frame: &[u8]) {
    match decode(r) {
        Ok(Some(d2)) => {
            if !eq_up_to_groups(d, &d2) {
                ctx.violation(
                    format!("C01.fixed_point|{}", d.number().unwrap_or(0)),
                    "C01.fixed_point",
                    format!("message {} decoded from frame {} is accepted by the encoder but decoding its encoding gives a different message: {} vs {}", d.number().unwrap_or(0), hex_short(frame), short_debug(d), short_debug(&d2)),
                    json!({"kind":"frame","hex":hex(frame)}),
                );
            }
        }
        Ok(None) => ctx.violation("C01.own_frame_rejected".into(), "C01.own_frame_rejected", format!("frame produced by the encoder is not accepted: {}", hex_short(r)), json!({"kind":"frame","hex":hex(frame)})),
        Err(_) => ctx.count("decode_panics_left_to_C02"),
    }
}

thread_local! {
    /// one long-lived builder per worker: C09's frame-level clauses are also checked on the
    /// output of a builder that has already built (and failed to build) other messages
    static REUSED: std::cell::RefCell<MessageBuilder> = std::cell::RefCell::new(MessageBuilder::new());
    /// value tree of the message the reused builder saw last (for replays)
    static REUSED_PREV: std::cell::RefCell<Option<Value>> = std::cell::RefCell::new(None);
}

fn judge_c09_reused(ctx: &mut Ctx, m: &Message) {
    let r = guard(|| {
        REUSED.with(|b| {
            let mut b = b.borrow_mut();
            b.build_message(m).ok().map(|f| f.to_vec())
        })
    });
    let long = matches!(&r, Ok(Some(f)) if f.len() > 900);
    match r {
        Ok(Some(f)) => {
            ctx.count("frames_from_reused_builder_checked");
            well_formed(ctx, m, &f, "reused_builder");
        }
        Ok(None) => {}
        Err(p) => {
            // the fresh builder has just handled this message without panicking (or the panic was reported there):
            // a panic here comes from what the builder did before
            let prev = REUSED_PREV.with(|x| x.borrow().clone()).unwrap_or(Value::Null);
            let cur = vtree::to_v(m).map(|v| vtree::v_to_json(&v)).unwrap_or(Value::Null);
            ctx.panic_violation("C09.no_panic", &p, &format!("build_message({}) on a builder that had built other messages before", msg_class(m)), json!({"kind":"reused_pair","prev":prev,"vtree":cur}));
            // a panic may leave the RefCell borrowed or the builder in any state: start over
            REUSED.with(|b| {
                if let Ok(mut g) = b.try_borrow_mut() {
                    *g = MessageBuilder::new();
                }
            });
        }
    }
    if ctx.evaluations % 32 == 0 || long {
        let cur = vtree::to_v(m).map(|v| vtree::v_to_json(&v)).ok();
        REUSED_PREV.with(|x| *x.borrow_mut() = cur);
    } else {
        REUSED_PREV.with(|x| *x.borrow_mut() = None);
    }
}

/// every list-bearing message at its capacity (the longest frames the encoder produces), each followed by a short
/// message on the same builder
fn capacity_messages(ctx: &mut Ctx, rng: &mut Rng, which: Which) {
    for l in crate::oracle::layout::LISTS.iter() {
        for fill in [1usize, 2] {
            let total_bits = l.elems_bit + l.capacity * l.elem_bits;
            let nbytes = (total_bits + 7) / 8;
            if nbytes > 1023 {
                continue;
            }
            let mut p = if fill == 1 { vec![0xFFu8; nbytes] } else { rng.bytes(nbytes) };
            bits::write(&mut p, 0, 12, l.number as u128);
            bits::write(&mut p, l.count_bit, l.count_width, l.capacity as u128);
            if let Ok(Some(m)) = decode(&crc::frame(&p)) {
                if m.number() == Some(l.number) {
                    ctx.count("list_messages_at_capacity");
                    ctx.max("longest_payload_built_bytes", nbytes as f64);
                    judge_message(ctx, &m, which, "list_at_capacity");
                    // and something short right behind it
                    judge_message(ctx, &Message::Empty, which, "after_list_at_capacity");
                    if let Ok(Some(s)) = decode(&crc::frame(&{
                        let mut q = vec![0u8; 19];
                        bits::write(&mut q, 0, 12, 1005);
                        q
                    })) {
                        judge_message(ctx, &s, which, "after_list_at_capacity");
                    }
                }
            }
        }
    }
}

pub fn judge_message(ctx: &mut Ctx, m: &Message, which: Which, origin: &'static str) -> bool {
    ctx.eval();
    let r = judge_c09(ctx, m, which == Which::C09);
    if which == Which::C09 {
        judge_c09_reused(ctx, m);
    }
    let mut accepted = false;
    if let Some(Ok(r1)) = &r {
        accepted = true;
        if which == Which::C01 && is_typed(m) {
            judge_c01(ctx, m, r1, origin);
        }
    }
    accepted
}

pub fn judge_frame(ctx: &mut Ctx, frame: &[u8], which: Which) -> Option<Message> {
    let d = match decode(frame) {
        Ok(Some(d)) => d,
        Ok(None) => return None,
        Err(_) => {
            ctx.count("decode_panics_left_to_C02");
            return None;
        }
    };
    if !is_typed(&d) {
        ctx.count("frames_not_typed");
        return None;
    }
    ctx.eval();
    let n = d.number().unwrap_or(0);
    ctx.count_dyn(format!("typed_frames:{}", n));
    let r = judge_c09(ctx, &d, which == Which::C09);
    if let Some(Ok(r1)) = &r {
        ctx.count_dyn(format!("typed_frames_reencoded:{}", n));
        ctx.nontrivial(hash_bytes(frame));
        if which == Which::C01 {
            judge_c01_fixed_point(ctx, &d, r1, frame);
            judge_c01(ctx, &d, r1, "decoded_frame");
        }
    }
    Some(d)
}

/// text-bearing messages built through the public `From<&str>` conversions of the string types
/// (the value-tree route goes through Deserialize instead)
fn typed_text_messages(ctx: &mut Ctx, rng: &mut Rng, which: Which) {
    use crate::gen::strings;
    use rtcm_rs::msg::{Msg1007T, Msg1029T, Msg1033T};
    use rtcm_rs::util::{ArrayString, Df88591String};
    let s = match rng.below(3) {
        0 => strings::straddle_string(rng, 255),
        1 => strings::hostile_string(rng),
        _ => strings::random_string(rng),
    };
    let built = guard(|| {
        let mut v: Vec<Message> = Vec::new();
        let mut t = Msg1029T::default();
        t.text_str = ArrayString::<255>::from(s.as_str());
        v.push(Message::Msg1029(t));
        let mut t = Msg1007T::default();
        t.antenna_descriptor_str = Df88591String::<31>::from(s.as_str());
        v.push(Message::Msg1007(t));
        let mut t = Msg1033T::default();
        t.receiver_type_descriptor_str = Df88591String::<31>::from(s.as_str());
        t.antenna_serial_number_str = s.chars().rev().collect();
        v.push(Message::Msg1033(t));
        v
    });
    match built {
        Ok(ms) => {
            for m in ms.iter() {
                ctx.count("typed_text_messages");
                judge_message(ctx, m, which, "typed_text");
            }
        }
        Err(_) => ctx.count("string_conversion_panics_left_to_C17"),
    }
}

/// messages without a wire form: the three variants, and `MsgNotSupported` carrying every number this build has a
/// codec for (the decoder never produces those), the 12-bit corners, numbers beyond 12 bits and random ones
fn no_wire_form(ctx: &mut Ctx, rng: &mut Rng, which: Which, w: usize, nw: usize) {
    use rtcm_rs::msg::message::MsgNotSupportedT;
    let mut ms = vec![Message::Empty, Message::Corrupt];
    let mut numbers: Vec<u16> = gen::supported_numbers().to_vec();
    numbers.extend_from_slice(&[0, 1, 1000, 1001, 1004, 1230, 1231, 4000, 4094, 4095, 4096, 4097, 8191, 32767, 32768, 65535]);
    for &n in gen::supported_numbers() {
        numbers.push(n.wrapping_add(4096));
        numbers.push(n.wrapping_sub(1));
        numbers.push(n + 1);
    }
    for (i, n) in numbers.iter().enumerate() {
        if i % nw == w {
            ms.push(Message::MsgNotSupported(MsgNotSupportedT { message_number: *n }));
        }
    }
    for _ in 0..64 {
        ms.push(Message::MsgNotSupported(MsgNotSupportedT { message_number: rng.below(65536) as u16 }));
    }
    for m in ms.iter() {
        ctx.count("no_wire_form_messages");
        judge_message(ctx, m, which, "no_wire_form");
    }
}

pub fn run(p: &Params, which: Which) -> Outcome {
    let seed = p.seed;
    let n_bases = p.size(500_000, 12_000_000);
    let mutants_per_base = 6u64;
    let per = (n_bases / p.workers as u64).max(1);
    let nums: Vec<u16> = gen::supported_numbers().to_vec();
    let nn = nums.len();
    let nums2 = nums.clone();
    let mut total = par::run(p.workers, move |w, nw, ctx| {
        // both properties draw the same stream: the salt does not depend on `which`
        let mut rng = Rng::derive(seed, "codec", w as u64);
        let mut tpl = Templates::default();
        no_wire_form(ctx, &mut rng, which, w, nw);
        capacity_messages(ctx, &mut rng, which);
        for i in 0..per {
            if ctx.saturated() {
                ctx.count("stopped_early_after_20000_violations");
                break;
            }
            if i % 6 == 1 {
                typed_text_messages(ctx, &mut rng, which);
            }
            let n = nums[((i as usize) * nw + w) % nn];
            let frame = if rng.chance(2, 5) {
                match gen::lib_frame(n, &mut rng) {
                    Some(f) => f,
                    None => continue,
                }
            } else {
                gen::wire_frame(&mut rng, n).0
            };
            if i % 160 == 3 && frame.len() > 12 {
                // window sweep: every value of 8 consecutive payload bits at a random bit offset
                // (hits all values of every small field and slices of the large ones)
                let nbits = (frame.len() - 6) * 8;
                let o = 24 + 12 + rng.usize_below(nbits - 12 - 8 + 1);
                let mut g = frame.clone();
                for v in 0..=255u128 {
                    bits::write(&mut g, o, 8, v);
                    crc::fix_crc(&mut g);
                    judge_frame(ctx, &g, which);
                }
                ctx.count_n("window_sweep_frames", 256);
            }
            let d = match judge_frame(ctx, &frame, which) {
                Some(d) => d,
                None => continue,
            };
            let v = match vtree::to_v(&d) {
                Ok(v) => v,
                Err(e) => {
                    ctx.inconclusive(format!("serialising a decoded message failed: {}", e.0));
                    continue;
                }
            };
            tpl.learn(&v);
            for _ in 0..mutants_per_base {
                let mut mv = v.clone();
                let labels = mutate::mutate(&mut mv, &mut rng, &tpl);
                for l in &labels {
                    ctx.count(l);
                }
                match guard(|| vtree::from_v::<Message>(&mv)) {
                    Ok(Ok(m)) => {
                        ctx.count("mutants_constructed");
                        let acc = judge_message(ctx, &m, which, "mutant");
                        if acc {
                            ctx.count_dyn(format!("accepted_mutants:{}", n));
                            ctx.nontrivial(vtree::hash_v(&mv));
                            if ctx.want_sample() && i % 97 == 3 {
                                ctx.sample(|| json!({"type": n, "mutations": labels, "message": short_debug(&m)}));
                            }
                        } else if which == Which::C09 {
                            ctx.nontrivial(vtree::hash_v(&mv));
                        }
                    }
                    Ok(Err(_)) => ctx.count("mutants_not_constructible(rejected_by_deserialize)"),
                    Err(_) => ctx.count("mutants_panicked_in_deserialize"),
                }
            }
        }
    });
    // minimum observations
    let mut missing_acc = Vec::new();
    let mut missing_typed = Vec::new();
    for n in &nums2 {
        if total.get(&format!("accepted_mutants:{}", n)) == 0 {
            missing_acc.push(*n);
        }
        if total.get(&format!("typed_frames_reencoded:{}", n)) == 0 {
            missing_typed.push(*n);
        }
    }
    if !missing_acc.is_empty() {
        total.inconclusive(format!("no accepted mutant for message numbers {:?}", missing_acc));
    }
    if !missing_typed.is_empty() {
        total.inconclusive(format!("no typed, re-encodable decoded frame for message numbers {:?}", missing_typed));
    }
    let rule = match which {
        Which::C01 => "base messages decoded from library-generated and reference-built (hostile) frames of every type, each mutated through the value tree (numeric extremes, off-grid reals, NaN/inf, options, list permutations/growth/duplicates, hostile text, satellite/signal remaps); oracle: encoder-accepted => decodes to the same typed variant, re-encoding reproduces the frame byte for byte (or twice-decoded equality for 1059/1065/1230 inputs with duplicate/unrecognised keys); decoded frames are fixed points up to 1059/1065 group order; non-trivial = encoder accepted; distinct by value-tree / frame hash",
        Which::C09 => "same message stream as C01 without the 'encoder accepts' filter, plus Empty/Corrupt/MsgNotSupported; oracle: no panic, Ok => 8..=1029 bytes, 0xD3, six zero bits, length field, own number in the first 12 payload bits, independent CRC-24Q; no-wire-form messages refused; non-trivial = every constructed message; distinct by value-tree / frame hash",
    };
    Outcome { ctx: total, rule: rule.into(), exhaustive: false, extra: json!({"message_types": nn}) }
}

// ------------------------------------------------------------------------------------
// C11 at message level: the field-level monitor (core::c11) drives `dfs::<id>::encode` through the hook; the
// message encoders need not go through that function (the MSM fragments write whole columns).  Here every real
// field of a decoded, canonical message is moved by a unit in the last place -- far less than half a step of any
// field -- and the message is encoded again: the frame may not change.
// ------------------------------------------------------------------------------------

fn c11_message_case(ctx: &mut Ctx, rng: &mut Rng, f: &[u8]) {
    let d = match decode(f) {
        Ok(Some(d)) if is_typed(&d) => d,
        _ => return,
    };
    match build(&d) {
        Ok(Ok(r)) if r == f => {}
        _ => {
            ctx.count("frames_not_canonical_skipped");
            return;
        }
    }
    let v = match vtree::to_v(&d) {
        Ok(v) => v,
        Err(_) => return,
    };
    for dir in 0..3u32 {
        let mut mv = v.clone();
        let moved = mutate::ulp_all_floats(&mut mv, rng, dir);
        if moved == 0 {
            ctx.count("messages_without_real_fields");
            return;
        }
        ctx.eval();
        ctx.nontrivial(hash_bytes(f) ^ dir as u64);
        let m: Message = match guard(|| vtree::from_v::<Message>(&mv)) {
            Ok(Ok(m)) => m,
            _ => continue,
        };
        ctx.count_n("real_fields_moved_by_an_ulp", moved as u64);
        match build(&m) {
            Err(_) => ctx.count("encode_panics_left_to_C09"),
            Ok(Err(e)) => ctx.violation(
                format!("C11.message_level|{}|refused", d.number().unwrap_or(0)),
                "C11.message_level",
                format!("message {} decoded from {} is refused ({}) after every real field was moved by a unit in the last place", d.number().unwrap_or(0), hex_short(f), e),
                json!({"kind":"ulp_message","hex":hex(f),"dir":dir}),
            ),
            Ok(Ok(r)) => {
                if r != f {
                    let mut first = 0;
                    let mlen = f.len().min(r.len());
                    while first < mlen * 8 && bits::get_bit(f, first) == bits::get_bit(&r, first) {
                        first += 1;
                    }
                    ctx.violation(
                        format!("C11.message_level|{}", d.number().unwrap_or(0)),
                        "C11.message_level",
                        format!("message {}: moving every real field by a unit in the last place ({}) changes the encoding at payload bit {}: the value is no longer quantised to the nearest step; frame {}", d.number().unwrap_or(0), ["random directions", "all up", "all down"][dir as usize], first as i64 - 24, hex_short(f)),
                        json!({"kind":"ulp_message","hex":hex(f),"dir":dir}),
                    );
                    return;
                }
            }
        }
    }
    ctx.count("messages_stable_under_ulp_moves");
}

pub fn run_c11_messages(p: &Params) -> Outcome {
    let seed = p.seed;
    let per_type = p.size(400, 20_000) as usize;
    let nums: Vec<u16> = gen::supported_numbers().to_vec();
    let n = nums.len();
    let total = par::run_queue(p.workers, n, move |i, ctx| {
        let mut rng = Rng::derive(seed, "C11.msg", i as u64);
        for _ in 0..per_type {
            if let Some(f) = gen::lib_frame_random(nums[i], &mut rng) {
                c11_message_case(ctx, &mut rng, &f);
            }
        }
    });
    Outcome { ctx: total, rule: "message level: every real field of a decoded canonical message moved by 1 ulp (f32) / 1..3 ulps (f64), all up / all down / random: the encoding may not change".into(), exhaustive: false, extra: json!({}) }
}

pub fn replay_c11_message(v: &Value) -> Outcome {
    let mut ctx = Ctx::new(0);
    let mut rng = Rng::new(7);
    c11_message_case(&mut ctx, &mut rng, &unhex(v["hex"].as_str().unwrap_or("")));
    Outcome { ctx, rule: "replay of one message-level quantisation case".into(), exhaustive: false, extra: json!({}) }
}

pub fn replay(p: &Params, v: &Value, which: Which) -> Outcome {
    let mut ctx = Ctx::new(0);
    let _ = p;
    match v["kind"].as_str().unwrap_or("") {
        "message" => match vtree::json_to_v(&v["vtree"]).and_then(|t| vtree::from_v::<Message>(&t).ok()) {
            Some(m) => {
                judge_message(&mut ctx, &m, which, "replay");
            }
            None => ctx.inconclusive("replay value tree does not deserialize to a Message".into()),
        },
        "frame" => {
            let f = unhex(v["hex"].as_str().unwrap_or(""));
            judge_frame(&mut ctx, &f, which);
        }
        "reused_pair" => {
            if let Some(pm) = vtree::json_to_v(&v["prev"]).and_then(|t| vtree::from_v::<Message>(&t).ok()) {
                judge_message(&mut ctx, &pm, which, "replay");
            }
            match vtree::json_to_v(&v["vtree"]).and_then(|t| vtree::from_v::<Message>(&t).ok()) {
                Some(m) => {
                    judge_message(&mut ctx, &m, which, "replay");
                }
                None => ctx.inconclusive("replay value tree does not deserialize to a Message".into()),
            }
        }
        k => ctx.inconclusive(format!("unknown replay kind {}", k)),
    }
    Outcome { ctx, rule: "replay of one recorded case".into(), exhaustive: false, extra: json!({}) }
}
