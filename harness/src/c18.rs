//! C18: signal identifier tables are one-to-one and ordered as on the wire.
//! Observed through the public API only: SigId::new / is_valid / cmp, the signal-mask bit
//! produced by encoding a one-cell MSM message and the descriptor produced by decoding a
//! one-cell frame for each mask position.

use crate::mon::{guard, Ctx};
use crate::oracle::{bits, crc, layout, sig};
use crate::par;
use crate::rng::Rng;
use crate::vtree::{self, V};
use crate::{Outcome, Params};
use rtcm_rs::msg::*;
use rtcm_rs::prelude::*;
use serde_json::{json, Value};
use std::cmp::Ordering;

trait SigOps {
    fn valid(b: u8, a: char) -> bool;
    fn cmp(x: (u8, char), y: (u8, char)) -> Ordering;
    fn eq(x: (u8, char), y: (u8, char)) -> bool;
    /// the other comparison the type offers: partial_cmp and the four operators
    fn partial(x: (u8, char), y: (u8, char)) -> (Option<Ordering>, [bool; 4]);
}
macro_rules! sigops {
    ($name:ident, $t:ty) => {
        struct $name;
        impl SigOps for $name {
            fn valid(b: u8, a: char) -> bool {
                <$t>::new(b, a).is_valid()
            }
            fn cmp(x: (u8, char), y: (u8, char)) -> Ordering {
                Ord::cmp(&<$t>::new(x.0, x.1), &<$t>::new(y.0, y.1))
            }
            fn eq(x: (u8, char), y: (u8, char)) -> bool {
                <$t>::new(x.0, x.1) == <$t>::new(y.0, y.1)
            }
            fn partial(x: (u8, char), y: (u8, char)) -> (Option<Ordering>, [bool; 4]) {
                let (a, b) = (<$t>::new(x.0, x.1), <$t>::new(y.0, y.1));
                (PartialOrd::partial_cmp(&a, &b), [a < b, a <= b, a > b, a >= b])
            }
        }
    };
}
sigops!(OGps, GpsSigId);
sigops!(OGlo, GloSigId);
sigops!(OGal, GalSigId);
sigops!(OSbas, SbasSigId);
sigops!(OQzss, QzssSigId);
sigops!(OBds, BdsSigId);
sigops!(ONavic, NavicSigId);

fn valid(c: usize, b: u8, a: char) -> bool {
    match c {
        0 => OGps::valid(b, a),
        1 => OGlo::valid(b, a),
        2 => OGal::valid(b, a),
        3 => OSbas::valid(b, a),
        4 => OQzss::valid(b, a),
        5 => OBds::valid(b, a),
        _ => ONavic::valid(b, a),
    }
}
fn cmp(c: usize, x: (u8, char), y: (u8, char)) -> Ordering {
    match c {
        0 => OGps::cmp(x, y),
        1 => OGlo::cmp(x, y),
        2 => OGal::cmp(x, y),
        3 => OSbas::cmp(x, y),
        4 => OQzss::cmp(x, y),
        5 => OBds::cmp(x, y),
        _ => ONavic::cmp(x, y),
    }
}
fn partial(c: usize, x: (u8, char), y: (u8, char)) -> (Option<Ordering>, [bool; 4]) {
    match c {
        0 => OGps::partial(x, y),
        1 => OGlo::partial(x, y),
        2 => OGal::partial(x, y),
        3 => OSbas::partial(x, y),
        4 => OQzss::partial(x, y),
        5 => OBds::partial(x, y),
        _ => ONavic::partial(x, y),
    }
}
fn eq(c: usize, x: (u8, char), y: (u8, char)) -> bool {
    match c {
        0 => OGps::eq(x, y),
        1 => OGlo::eq(x, y),
        2 => OGal::eq(x, y),
        3 => OSbas::eq(x, y),
        4 => OQzss::eq(x, y),
        5 => OBds::eq(x, y),
        _ => ONavic::eq(x, y),
    }
}

/// MSM1 frame of constellation c with satellite 5 and one cell at signal position pos
pub fn one_cell_frame(c: usize, pos: u8) -> Vec<u8> {
    let n = 1071 + 10 * c as u16;
    let mut b = bits::BitBuf::new();
    b.push(n as u128, 12);
    b.push(0, 61); // rest of the 73-bit header
    b.push(1u128 << (64 - 5), 64);
    b.push(1u128 << (32 - pos as u32), 32);
    b.push(1, 1);
    b.push(0x155, 10);
    b.push(0x1234, 15);
    crc::frame(&b.into_bytes())
}

fn decode_pos(c: usize, pos: u8) -> Result<Option<(u8, char)>, String> {
    let f = one_cell_frame(c, pos);
    let m = guard(|| MessageFrame::new(&f).ok().map(|mf| mf.get_message())).map_err(|p| format!("panic {}", p.site))?;
    let m = match m {
        Some(m) => m,
        None => return Err("frame rejected".into()),
    };
    if matches!(m, Message::Corrupt) {
        return Ok(None);
    }
    let v = vtree::to_v(&m).map_err(|e| e.0)?;
    let mut found: Option<(u8, char)> = None;
    let mut vv = v;
    crate::mutate::walk_mut(&mut vv, ("", ""), &mut |node, site, _| {
        if site == crate::mutate::Site::Sig {
            if let V::TupleStruct(_, xs) = node {
                if let (V::U8(b), V::Char(a)) = (&xs[0], &xs[1]) {
                    found = Some((*b, *a));
                }
            }
        }
    });
    match found {
        Some(x) => Ok(Some(x)),
        None => Err(format!("decoded to {} without a signal cell", crate::framing::msg_class(&m))),
    }
}

/// descriptor -> position through the encoder: Ok(Some(pos)), Ok(None) = InvalidSignalId
fn encode_sig(base: &V, b: u8, a: char) -> Result<Option<u8>, String> {
    let mut v = base.clone();
    crate::mutate::walk_mut(&mut v, ("", ""), &mut |node, site, _| {
        if site == crate::mutate::Site::Sig {
            if let V::TupleStruct(_, xs) = node {
                xs[0] = V::U8(b);
                xs[1] = V::Char(a);
            }
        }
    });
    let m: Message = vtree::from_v(&v).map_err(|e| e.0)?;
    match crate::codec::build(&m) {
        Err(p) => Err(format!("panic {}", p.site)),
        Ok(Err(e)) => {
            if e == "InvalidSignalId" {
                Ok(None)
            } else {
                Err(format!("unexpected error {}", e))
            }
        }
        Ok(Ok(f)) => {
            let mask = bits::read(&f[3..], layout::MSM_SIG_MASK_BIT, 32) as u32;
            if mask.count_ones() != 1 {
                return Err(format!("signal mask {:#x} has {} bits", mask, mask.count_ones()));
            }
            Ok(Some(mask.leading_zeros() as u8 + 1))
        }
    }
}

/// MSM1 frame with two signal-mask bits: recognised position p carrying the only cell, and
/// position u (not in the table) whose column is empty
fn frame_with_unassigned_column(c: usize, p: u8, u: u8) -> Vec<u8> {
    let n = 1071 + 10 * c as u16;
    let mut b = bits::BitBuf::new();
    b.push(n as u128, 12);
    b.push(0, 61);
    b.push(1u128 << (64 - 9), 64);
    b.push((1u128 << (32 - p as u32)) | (1u128 << (32 - u as u32)), 32);
    // one satellite x two signals: cell mask has 2 bits in position order
    if u < p {
        b.push(0b01, 2);
    } else {
        b.push(0b10, 2);
    }
    b.push(0x2AA, 10);
    b.push(0x0FED, 15);
    crc::frame(&b.into_bytes())
}

/// MSM1 frame, one satellite, signal mask = `cols` (positions), only the column `p` has a cell
fn frame_with_columns(c: usize, cols: &[u8], p: u8) -> Vec<u8> {
    let n = 1071 + 10 * c as u16;
    let mut sorted: Vec<u8> = cols.to_vec();
    sorted.sort();
    sorted.dedup();
    let mut b = bits::BitBuf::new();
    b.push(n as u128, 12);
    b.push(0, 61);
    b.push(1u128 << (64 - 9), 64);
    let mut m = 0u128;
    for &x in &sorted {
        m |= 1u128 << (32 - x as u32);
    }
    b.push(m, 32);
    for &x in &sorted {
        b.push_bit(x == p);
    }
    b.push(0x2AA, 10);
    b.push(0x0FED, 15);
    crc::frame(&b.into_bytes())
}

/// a position's descriptor must not depend on which other (unused) mask bits are set: the
/// decoder may reject such a frame (Corrupt) but must not report another descriptor
fn check_unassigned_columns(ctx: &mut Ctx, c: usize) {
    let cn = sig::CONSTELLATIONS[c];
    let rec = sig::positions(c);
    for (pi, &p) in rec.iter().enumerate() {
        for u in 1..=32u8 {
            if sig::pos_to_sig(c, u).is_some() {
                continue;
            }
            // variants: {u, p}; {u, p, q} with q the next recognised position; {u, p, q, first}
            let mut variants: Vec<Vec<u8>> = vec![vec![u, p]];
            if let Some(&q) = rec.get(pi + 1) {
                variants.push(vec![u, p, q]);
            }
            if pi >= 1 {
                variants.push(vec![u, p, rec[pi - 1]]);
            }
            if rec.len() >= 3 {
                variants.push(vec![u, p, rec[0], rec[rec.len() - 1]]);
            }
            for cols in variants {
            ctx.eval();
            let f = frame_with_columns(c, &cols, p);
            let m = match guard(|| MessageFrame::new(&f).ok().map(|mf| mf.get_message())) {
                Ok(Some(m)) => m,
                _ => continue,
            };
            if matches!(m, Message::Corrupt) {
                ctx.count("frames_with_unassigned_mask_bit_rejected");
                continue;
            }
            ctx.count("frames_with_unassigned_mask_bit_decoded");
            let mut found: Option<(u8, char)> = None;
            if let Ok(mut vv) = vtree::to_v(&m) {
                crate::mutate::walk_mut(&mut vv, ("", ""), &mut |node, site, _| {
                    if site == crate::mutate::Site::Sig {
                        if let V::TupleStruct(_, xs) = node {
                            if let (V::U8(b), V::Char(a)) = (&xs[0], &xs[1]) {
                                found = Some((*b, *a));
                            }
                        }
                    }
                });
            }
            let exp = sig::pos_to_sig(c, p);
            if found != exp {
                ctx.violation(
                    format!("C18.position_to_descriptor|{}|with_unassigned_mask_bit", cn),
                    "C18.position_to_descriptor",
                    format!("{}: cell at signal-mask position {} decodes as {:?} (reference {:?}) when the unused, unassigned position {} is also set in the mask", cn, p, found, exp, u),
                    json!({"kind":"unassigned_column","constellation":c,"pos":p,"other":u}),
                );
            }
            }
        }
    }
}

/// every recognised position keeps its descriptor however many other recognised positions share the mask: signal
/// masks holding the first k table entries for every k, the last k, and the whole table, one cell on each column
/// in turn.  All columns are recognised, so these frames are well formed and must decode.
fn check_full_table_columns(ctx: &mut Ctx, c: usize) {
    let cn = sig::CONSTELLATIONS[c];
    let rec = sig::positions(c);
    let mut masks: Vec<Vec<u8>> = Vec::new();
    for k in 1..=rec.len() {
        masks.push(rec[..k].to_vec());
        masks.push(rec[rec.len() - k..].to_vec());
    }
    masks.sort();
    masks.dedup();
    for cols in masks {
        for &p in &cols {
            ctx.eval();
            ctx.count("frames_with_many_recognised_columns");
            ctx.max("largest_signal_mask_decoded_columns", cols.len() as f64);
            let f = frame_with_columns(c, &cols, p);
            let m = match guard(|| MessageFrame::new(&f).ok().map(|mf| mf.get_message())) {
                Ok(Some(m)) => m,
                Ok(None) => {
                    ctx.violation("C18.reference_frame_rejected".into(), "C18.reference_frame_rejected", crate::mon::hex_short(&f), json!({"kind":"columns","constellation":c,"columns":cols,"pos":p}));
                    continue;
                }
                Err(_) => {
                    ctx.count("decode_panics_left_to_C02");
                    continue;
                }
            };
            let mut found: Option<(u8, char)> = None;
            if let Ok(mut vv) = vtree::to_v(&m) {
                crate::mutate::walk_mut(&mut vv, ("", ""), &mut |node, site, _| {
                    if site == crate::mutate::Site::Sig {
                        if let V::TupleStruct(_, xs) = node {
                            if let (V::U8(b), V::Char(a)) = (&xs[0], &xs[1]) {
                                found = Some((*b, *a));
                            }
                        }
                    }
                });
            }
            let exp = sig::pos_to_sig(c, p);
            if found != exp {
                ctx.violation(
                    format!("C18.position_to_descriptor|{}|among_{}_recognised_columns", cn, if cols.len() > 16 { "more_than_16" } else { "up_to_16" }),
                    "C18.position_to_descriptor",
                    format!("{}: a cell at signal-mask position {} in a mask of {} recognised positions decodes as {} / {:?} (reference {:?})", cn, p, cols.len(), crate::framing::msg_class(&m), found, exp),
                    json!({"kind":"columns","constellation":c,"columns":cols,"pos":p}),
                );
            }
        }
    }
}

fn rv(c: usize, b: u8, a: char) -> Value {
    json!({"kind":"descriptor","constellation":c,"band":b,"attr":a as u32})
}

fn check_descriptor(ctx: &mut Ctx, c: usize, base: &V, b: u8, a: char, through_encoder: bool) {
    ctx.eval();
    let exp = sig::sig_to_pos(c, b, a);
    let cn = sig::CONSTELLATIONS[c];
    let v = valid(c, b, a);
    if v != exp.is_some() {
        ctx.violation(format!("C18.valid_iff_in_table|{}", cn), "C18.valid_iff_in_table", format!("{} descriptor ({}, {:?}): is_valid() = {}, reference table position {:?}", cn, b, a, v, exp), rv(c, b, a));
    }
    if through_encoder {
        match encode_sig(base, b, a) {
            Ok(p) => {
                if p.is_some() {
                    ctx.count("descriptors_accepted_by_encoder");
                } else {
                    ctx.count("descriptors_refused_invalid_signal_id");
                }
                if p != exp {
                    ctx.violation(
                        format!("C18.descriptor_to_position|{}|{}", cn, if p.is_some() && exp.is_some() { "wrong_position" } else if p.is_some() { "non_standard_accepted" } else { "standard_refused" }),
                        "C18.descriptor_to_position",
                        format!("{} descriptor ({}, {:?}): encoder sets signal-mask position {:?}, reference table says {:?}", cn, b, a, p, exp),
                        rv(c, b, a),
                    );
                }
            }
            Err(e) => {
                ctx.violation(format!("C18.encoder_behaviour|{}", cn), "C18.encoder_behaviour", format!("{} descriptor ({}, {:?}): {}", cn, b, a, e), rv(c, b, a));
            }
        }
    }
}

fn attr_chars() -> Vec<char> {
    (0u32..=0xFF).filter_map(char::from_u32).collect()
}

fn check_order(ctx: &mut Ctx, c: usize, x: (u8, char), y: (u8, char), z: (u8, char)) {
    ctx.eval();
    let cn = sig::CONSTELLATIONS[c];
    let px = sig::sig_to_pos(c, x.0, x.1);
    let py = sig::sig_to_pos(c, y.0, y.1);
    let xy = cmp(c, x, y);
    let yx = cmp(c, y, x);
    let rvv = || json!({"kind":"triple","constellation":c,"x":[x.0, x.1 as u32],"y":[y.0, y.1 as u32],"z":[z.0, z.1 as u32]});
    // position order / unrecognised last
    let expect = match (px, py) {
        (Some(a), Some(b)) => Some(a.cmp(&b)),
        (Some(_), None) => Some(Ordering::Less),
        (None, Some(_)) => Some(Ordering::Greater),
        (None, None) => None,
    };
    if let Some(e) = expect {
        if xy != e {
            ctx.violation(format!("C18.order_by_position|{}", cn), "C18.order_by_position", format!("{}: cmp({:?}, {:?}) = {:?}, positions {:?} / {:?} demand {:?}", cn, x, y, xy, px, py, e), rvv());
        }
    }
    // consistency with ==, antisymmetry, reflexivity
    if xy != yx.reverse() {
        ctx.violation(format!("C18.antisymmetric|{}", cn), "C18.antisymmetric", format!("{}: cmp({:?},{:?}) = {:?} but cmp({:?},{:?}) = {:?}", cn, x, y, xy, y, x, yx), rvv());
    }
    if (xy == Ordering::Equal) != eq(c, x, y) || (x == y) != eq(c, x, y) {
        ctx.violation(format!("C18.consistent_with_eq|{}", cn), "C18.consistent_with_eq", format!("{}: cmp({:?},{:?}) = {:?} but == is {}", cn, x, y, xy, eq(c, x, y)), rvv());
    }
    // one order, not two: partial_cmp and the operators <, <=, >, >= say what cmp says
    let (pc, ops) = partial(c, x, y);
    let want = [xy == Ordering::Less, xy != Ordering::Greater, xy == Ordering::Greater, xy != Ordering::Less];
    if pc != Some(xy) || ops != want {
        let kind = match (px.is_some(), py.is_some()) {
            (true, true) => "both_recognised",
            (false, false) => "both_unrecognised",
            _ => "one_unrecognised",
        };
        ctx.violation(
            format!("C18.operators_agree_with_cmp|{}|{}", cn, kind),
            "C18.operators_agree_with_cmp",
            format!("{}: cmp({:?}, {:?}) = {:?} but partial_cmp = {:?} and [<, <=, >, >=] = {:?}", cn, x, y, xy, pc, ops),
            rvv(),
        );
    }
    if cmp(c, x, x) != Ordering::Equal {
        ctx.violation(format!("C18.reflexive|{}", cn), "C18.reflexive", format!("{}: cmp({:?},{:?}) != Equal", cn, x, x), rvv());
    }
    // transitivity
    let yz = cmp(c, y, z);
    let xz = cmp(c, x, z);
    if xy != Ordering::Greater && yz != Ordering::Greater && xz == Ordering::Greater {
        ctx.violation(format!("C18.transitive|{}", cn), "C18.transitive", format!("{}: {:?} <= {:?} <= {:?} but cmp(x,z) = {:?}", cn, x, y, z, xz), rvv());
    }
    if xy != Ordering::Less && yz != Ordering::Less && xz == Ordering::Less {
        ctx.violation(format!("C18.transitive|{}", cn), "C18.transitive", format!("{}: {:?} >= {:?} >= {:?} but cmp(x,z) = {:?}", cn, x, y, z, xz), rvv());
    }
}

fn base_for(ctx: &mut Ctx, c: usize) -> Option<V> {
    // position -> descriptor over all 32 positions; the first recognised one yields the base
    let cn = sig::CONSTELLATIONS[c];
    let mut base: Option<V> = None;
    let mut seen: Vec<(u8, char)> = Vec::new();
    for pos in 1..=32u8 {
        ctx.eval();
        let exp = sig::pos_to_sig(c, pos);
        match decode_pos(c, pos) {
            Ok(got) => {
                if got != exp {
                    ctx.violation(
                        format!("C18.position_to_descriptor|{}", cn),
                        "C18.position_to_descriptor",
                        format!("{} signal-mask position {}: decoder gives {:?}, reference table {:?}", cn, pos, got, exp),
                        json!({"kind":"position","constellation":c,"pos":pos}),
                    );
                }
                if let Some(d) = got {
                    ctx.count("positions_decoding_to_a_descriptor");
                    if seen.contains(&d) {
                        ctx.violation(format!("C18.injective|{}", cn), "C18.injective", format!("{}: descriptor {:?} is produced by two positions", cn, d), json!({"kind":"position","constellation":c,"pos":pos}));
                    }
                    seen.push(d);
                    if pos < 2 {
                        ctx.violation(format!("C18.positions_2_to_32|{}", cn), "C18.positions_2_to_32", format!("{}: position {} is mapped", cn, pos), json!({"kind":"position","constellation":c,"pos":pos}));
                    }
                    if base.is_none() {
                        let f = one_cell_frame(c, pos);
                        if let Ok(Some(m)) = crate::codec::decode(&f) {
                            base = vtree::to_v(&m).ok();
                        }
                    }
                } else {
                    ctx.count("positions_decoding_to_corrupt");
                }
            }
            Err(e) => ctx.violation(format!("C18.decoder_behaviour|{}", cn), "C18.decoder_behaviour", format!("{} position {}: {}", cn, pos, e), json!({"kind":"position","constellation":c,"pos":pos})),
        }
    }
    base
}

pub fn run(p: &Params) -> Outcome {
    let seed = p.seed;
    let n_triples = p.size(3_000_000, 300_000_000);
    // jobs: (constellation, band) for the exhaustive descriptor sweep, + 7 ordering jobs
    let njobs = 7 * 256 + 7;
    let mut total = par::run_queue(p.workers, njobs, move |j, ctx| {
        if j < 7 * 256 {
            let c = j / 256;
            let band = (j % 256) as u8;
            // the position sweep is part of job band 0
            let base = if band == 0 {
                check_unassigned_columns(ctx, c);
            check_full_table_columns(ctx, c);
                base_for(ctx, c)
            } else {
                // cheap: rebuild the base from the first recognised reference position
                sig::positions(c).first().and_then(|&pos| crate::codec::decode(&one_cell_frame(c, pos)).ok().flatten()).and_then(|m| vtree::to_v(&m).ok())
            };
            let base = match base {
                Some(b) => b,
                None => {
                    ctx.inconclusive(format!("no base message for constellation {}", c));
                    return;
                }
            };
            for a in attr_chars() {
                check_descriptor(ctx, c, &base, band, a, true);
            }
            ctx.nontrivial_enumerated(256);
            // aliases of recognised descriptors of this band: same low byte in every higher
            // plane position, full-width forms, other case -- all must be unrecognised
            for pos in sig::positions(c) {
                let (b0, a0) = sig::pos_to_sig(c, pos).unwrap();
                if b0 != band {
                    continue;
                }
                for k in 1..=0x10FFu32 {
                    if let Some(ch) = char::from_u32((k << 8) | a0 as u32) {
                        ctx.count("attribute_aliases_checked");
                        // is_valid for all of them, the encoder for every 16th
                        check_descriptor(ctx, c, &base, band, ch, k % 16 == 1);
                    }
                }
                if let Some(ch) = char::from_u32(0xFF21 + (a0 as u32 - 0x41)) {
                    check_descriptor(ctx, c, &base, band, ch, true);
                }
            }
            // sampled higher code points
            let mut rng = Rng::derive(seed, "C18.hi", j as u64);
            for _ in 0..64 {
                if let Some(a) = char::from_u32(rng.range(0x100, 0x10FFFF) as u32) {
                    check_descriptor(ctx, c, &base, band, a, true);
                }
            }
            if band == 1 && ctx.want_sample() {
                ctx.sample(|| json!({"constellation": sig::CONSTELLATIONS[c], "band": band, "attributes": "U+0000..U+00FF + 64 sampled above", "reference_positions": sig::positions(c)}));
            }
        } else {
            let c = j - 7 * 256;
            let mut rng = Rng::derive(seed, "C18.ord", c as u64);
            let rec: Vec<(u8, char)> = sig::positions(c).iter().filter_map(|&p| sig::pos_to_sig(c, p)).collect();
            // all pairs and triples of recognised descriptors
            for &x in &rec {
                for &y in &rec {
                    for &z in &rec {
                        check_order(ctx, c, x, y, z);
                    }
                }
            }
            ctx.nontrivial_enumerated((rec.len() * rec.len() * rec.len()) as u64);
            ctx.count_n("recognised_triples", (rec.len() * rec.len() * rec.len()) as u64);
            // bit neighbours: descriptors that differ in exactly one bit of the band or of the
            // attribute must never compare Equal (catches comparison keys that drop or merge bits)
            let mut attrs: Vec<char> = vec!['C', 'X', 'A', 'a', '\u{0}', '\u{7f}', '\u{80}', '\u{ff}', '\u{100}', '\u{143}', '\u{ffff}', '\u{10000}', '\u{10041}', '\u{1f6f0}', '\u{fffff}', '\u{100000}', '\u{10ffff}', '\u{20000}', '\u{e0001}'];
            for _ in 0..12 {
                if let Some(ch) = char::from_u32(rng.range(0, 0x10FFFF) as u32) {
                    attrs.push(ch);
                }
            }
            let mut n_pairs = 0u64;
            for &a in &attrs {
                for b in 0..=255u8 {
                    let x = (b, a);
                    for j in 0..8 {
                        let y = (b ^ (1 << j), a);
                        check_order(ctx, c, x, y, x);
                        n_pairs += 1;
                    }
                    if b % 16 == 3 {
                        for k in 0..21 {
                            if let Some(a2) = char::from_u32(a as u32 ^ (1 << k)) {
                                check_order(ctx, c, x, (b, a2), x);
                                n_pairs += 1;
                            }
                        }
                    }
                }
                // all band pairs for this attribute, sampled stride
                for b1 in (0..=255u8).step_by(5) {
                    for b2 in 0..=255u8 {
                        if b1 != b2 {
                            check_order(ctx, c, (b1, a), (b2, a), (b1, a));
                            n_pairs += 1;
                        }
                    }
                }
            }
            ctx.nontrivial_enumerated(n_pairs);
            ctx.count_n("bit_neighbour_and_same_attribute_pairs", n_pairs);
            // mixed triples
            let pickd = |rng: &mut Rng| -> (u8, char) {
                match rng.below(4) {
                    0 => *rng.pick(&rec),
                    1 => crate::mutate::random_sig(rng),
                    2 => (rng.range(0, 9) as u8, (b'A' + rng.below(26) as u8) as char),
                    _ => (rng.u8(), char::from_u32(rng.range(0, 0x2FF) as u32).unwrap_or('x')),
                }
            };
            for _ in 0..(n_triples / 7) {
                let (x, y, z) = (pickd(&mut rng), pickd(&mut rng), pickd(&mut rng));
                check_order(ctx, c, x, y, z);
                ctx.nontrivial(crate::rng::mix(crate::rng::mix(x.0 as u64 * 0x110000 + x.1 as u64, y.0 as u64 * 0x110000 + y.1 as u64), (z.0 as u64 * 0x110000 + z.1 as u64) * 8 + c as u64));
            }
        }
    });
    total.exhaustive_parts.push("7 constellations x band 0..=255 x attribute U+0000..U+00FF (every descriptor) x all 32 mask positions; all triples of recognised descriptors".into());
    if total.get("positions_decoding_to_a_descriptor") == 0 || total.get("descriptors_accepted_by_encoder") == 0 {
        total.inconclusive("no recognised descriptor observed".into());
    }
    Outcome {
        ctx: total,
        rule: "exhaustive descriptor sweep through is_valid and through the encoder of a one-cell MSM1 message per constellation, all 32 mask positions through the decoder (alone, next to unassigned mask bits, and among the first k / last k / all recognised positions of the table), all pairs/triples of recognised descriptors and sampled mixed triples through Ord::cmp, PartialOrd::partial_cmp and the operators < <= > >=; oracle: SigRef tables (RTCM 10403.3 via RTKLIB), inverse bijection onto a subset of 2..=32, valid iff in table, order by position with unrecognised last, total order consistent with == and the same through cmp, partial_cmp and the operators".into(),
        exhaustive: false,
        extra: json!({}),
    }
}

pub fn replay(_p: &Params, v: &Value) -> Outcome {
    let mut ctx = Ctx::new(0);
    let c = v["constellation"].as_u64().unwrap_or(0) as usize % 7;
    let d = |j: &Value| -> (u8, char) { (j[0].as_u64().unwrap_or(0) as u8, char::from_u32(j[1].as_u64().unwrap_or(67) as u32).unwrap_or('C')) };
    match v["kind"].as_str().unwrap_or("") {
        "descriptor" => {
            if let Some(base) = base_for(&mut ctx, c) {
                let a = char::from_u32(v["attr"].as_u64().unwrap_or(67) as u32).unwrap_or('C');
                check_descriptor(&mut ctx, c, &base, v["band"].as_u64().unwrap_or(0) as u8, a, true);
            }
        }
        "position" => {
            base_for(&mut ctx, c);
        }
        "unassigned_column" => check_unassigned_columns(&mut ctx, c),
        "columns" => check_full_table_columns(&mut ctx, c),
        "triple" => check_order(&mut ctx, c, d(&v["x"]), d(&v["y"]), d(&v["z"])),
        k => ctx.inconclusive(format!("unknown replay kind {}", k)),
    }
    Outcome { ctx, rule: "replay".into(), exhaustive: false, extra: json!({}) }
}
