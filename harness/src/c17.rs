//! C17: text fields are preserved exactly or cut on a character boundary.

use crate::codec::{build, decode};
use crate::framing::msg_class;
use crate::gen::{self, strings};
use crate::mon::{guard, hex_short, Ctx};
use crate::mutate::{walk_mut, Site};
use crate::oracle::{bits, crc, layout};
use crate::par;
use crate::rng::{hash_bytes, Rng};
use crate::vtree::{self, V};
use crate::{Outcome, Params};
use rtcm_rs::prelude::*;
use rtcm_rs::util::{ArrayString, Df88591String};
use serde_json::{json, Value};

/// reference: descriptor mapping of a string at capacity n
fn ref_desc(s: &str, n: usize) -> Vec<u8> {
    s.chars()
        .take(n)
        .map(|c| {
            let code = c as u32;
            if (1..=255).contains(&code) {
                code as u8
            } else {
                0xA4
            }
        })
        .collect()
}

fn ref_desc_chars(s: &str, n: usize) -> String {
    ref_desc(s, n).iter().map(|b| char::from_u32(*b as u32).unwrap()).collect()
}

/// reference: longest prefix of whole characters within n bytes
fn ref_prefix(s: &str, n: usize) -> &str {
    let mut end = 0;
    for (i, c) in s.char_indices() {
        if i + c.len_utf8() > n {
            break;
        }
        end = i + c.len_utf8();
    }
    &s[..end]
}

fn rp(s: &str) -> Value {
    json!({"kind":"string","codepoints": s.chars().map(|c| c as u32).collect::<Vec<_>>()})
}

fn classify(ctx: &mut Ctx, s: &str) {
    if s.contains('\0') {
        ctx.count("strings_with_NUL");
    }
    if s.chars().any(|c| (0x80..=0xFF).contains(&(c as u32))) {
        ctx.count("strings_with_latin1_high_half");
    }
    if s.chars().any(|c| c as u32 > 0xFFFF) {
        ctx.count("strings_with_astral_chars");
    }
    for cap in [7usize, 31, 255] {
        if s.len() > cap && !s.is_char_boundary(cap) {
            ctx.count("strings_with_char_straddling_a_capacity");
        }
    }
}

fn unit_desc<const N: usize>(ctx: &mut Ctx, s: &str) {
    ctx.eval();
    let r = guard(|| {
        let d = Df88591String::<N>::from(s);
        let chars: String = d.chars().collect();
        let bytes: Vec<u8> = d.iter().copied().collect();
        (chars, bytes, d.len())
    });
    match r {
        Err(p) => ctx.panic_violation("C17.no_panic", &p, &format!("Df88591String::<{}>::from", N), rp(s)),
        Ok((chars, bytes, len)) => {
            let eb = ref_desc(s, N);
            if bytes != eb || len != eb.len() || chars != ref_desc_chars(s, N) {
                let what = if len != eb.len() { "length" } else if bytes != eb { "stored_bytes" } else { "chars_read_back" };
                ctx.violation(
                    format!("C17.descriptor_mapping|{}|{}", N, what),
                    "C17.descriptor_mapping",
                    format!("Df88591String<{}>::from({:?}): stored {:?} (len {}), read back {:?}; reference bytes {:?}", N, s.chars().take(40).collect::<String>(), &bytes[..bytes.len().min(40)], len, chars.chars().take(40).collect::<String>(), &eb[..eb.len().min(40)]),
                    rp(s),
                );
            }
        }
    }
}

fn unit_text<const N: usize>(ctx: &mut Ctx, s: &str) {
    ctx.eval();
    let r = guard(|| {
        let a = ArrayString::<N>::from(s);
        let st: &str = &a;
        st.to_string()
    });
    match r {
        Err(p) => ctx.panic_violation("C17.no_panic", &p, &format!("ArrayString::<{}>::from / deref", N), rp(s)),
        Ok(got) => {
            let e = ref_prefix(s, N);
            if got != e {
                ctx.violation(
                    format!("C17.utf8_prefix|{}|{}", N, if got.len() > N { "over_capacity" } else if got.len() < e.len() { "too_short" } else { "different" }),
                    "C17.utf8_prefix",
                    format!("ArrayString<{}>::from(string of {} bytes): kept {} bytes, reference keeps {} bytes", N, s.len(), got.len(), e.len()),
                    rp(s),
                );
            }
        }
    }
}

/// the same conversions through `FromIterator<char>` fed by iterators whose size hint counts characters (a vector
/// of chars, `chars().take(k)`, `repeat().take(k)`), not bytes: the result must be the same prefix
fn unit_from_char_iterators<const N: usize>(ctx: &mut Ctx, s: &str) {
    ctx.eval();
    let r = guard(|| {
        let v: Vec<char> = s.chars().collect();
        let a: ArrayString<N> = v.clone().into_iter().collect();
        let b: ArrayString<N> = s.chars().take(v.len()).collect();
        let c: ArrayString<N> = match v.first() {
            Some(&ch) => std::iter::repeat(ch).take(v.len().min(300)).collect(),
            None => ArrayString::<N>::new(),
        };
        let d: Df88591String<N> = v.clone().into_iter().collect();
        let (a, b, c): (&str, &str, &str) = (&a, &b, &c);
        (a.to_string(), b.to_string(), c.to_string(), d.iter().copied().collect::<Vec<u8>>())
    });
    match r {
        Err(p) => ctx.panic_violation("C17.no_panic", &p, &format!("collect::<ArrayString<{}>>() / collect::<Df88591String<{}>>() from a char iterator", N, N), rp(s)),
        Ok((a, b, c, d)) => {
            ctx.count("conversions_from_char_iterators");
            let e = ref_prefix(s, N);
            let rep: String = match s.chars().next() {
                Some(ch) => std::iter::repeat(ch).take(s.chars().count().min(300)).collect(),
                None => String::new(),
            };
            if a != e || b != e || c != ref_prefix(&rep, N) {
                ctx.violation(format!("C17.utf8_prefix|{}|from_char_iterator", N), "C17.utf8_prefix", format!("collect::<ArrayString<{}>>() from a char iterator over a string of {} bytes kept {} / {} bytes, reference keeps {} bytes", N, s.len(), a.len(), b.len(), e.len()), rp(s));
            }
            if d != ref_desc(s, N) {
                ctx.violation(format!("C17.descriptor_mapping|{}|from_char_iterator", N), "C17.descriptor_mapping", format!("collect::<Df88591String<{}>>() from a char iterator: stored {:?}, reference {:?}", N, &d[..d.len().min(40)], &ref_desc(s, N)[..ref_desc(s, N).len().min(40)]), rp(s));
            }
        }
    }
}

fn unit(ctx: &mut Ctx, s: &str) {
    classify(ctx, s);
    ctx.nontrivial(hash_bytes(s.as_bytes()));
    unit_desc::<7>(ctx, s);
    unit_desc::<31>(ctx, s);
    unit_desc::<1>(ctx, s);
    unit_text::<7>(ctx, s);
    unit_text::<31>(ctx, s);
    unit_text::<255>(ctx, s);
    unit_from_char_iterators::<7>(ctx, s);
    unit_from_char_iterators::<31>(ctx, s);
    unit_from_char_iterators::<255>(ctx, s);
    unit_text::<4>(ctx, s);
}

fn str_leaves(v: &V) -> Vec<String> {
    let mut out = Vec::new();
    let mut vv = v.clone();
    walk_mut(&mut vv, ("", ""), &mut |node, site, _| {
        if site == Site::Str {
            if let V::Str(s) = node {
                out.push(s.clone());
            }
        }
    });
    out
}

/// message round trip with every string leaf replaced
fn message_round_trip(ctx: &mut Ctx, rng: &mut Rng, number: u16, base: &V) {
    ctx.eval();
    let mut mv = base.clone();
    let mut given: Vec<String> = Vec::new();
    walk_mut(&mut mv, ("", ""), &mut |node, site, _| {
        if site == Site::Str {
            let s = strings::hostile_string(rng);
            given.push(s.clone());
            *node = V::Str(s);
        }
    });
    let rpv = || json!({"kind":"message","vtree":vtree::v_to_json(&mv)});
    let m: Message = match guard(|| vtree::from_v::<Message>(&mv)) {
        Ok(Ok(m)) => m,
        Ok(Err(_)) => {
            ctx.count("message_not_constructible");
            return;
        }
        Err(p) => {
            ctx.panic_violation("C17.no_panic", &p, "constructing a message with hostile text", rpv());
            return;
        }
    };
    // what the fields hold must be the reference mapping of what was given
    let held = vtree::to_v(&m).map(|v| str_leaves(&v)).unwrap_or_default();
    for (g, h) in given.iter().zip(held.iter()) {
        let exp = if number == 1029 { ref_prefix(g, 255).to_string() } else { ref_desc_chars(g, 31) };
        if *h != exp {
            ctx.violation(format!("C17.field_holds_mapping|{}", number), "C17.field_holds_mapping", format!("msg {}: field given {:?} holds {:?}, reference {:?}", number, g.chars().take(40).collect::<String>(), h.chars().take(40).collect::<String>(), exp.chars().take(40).collect::<String>()), rpv());
            return;
        }
    }
    let too_long_1029 = number == 1029 && held.first().map(|t| t.chars().count() > 127).unwrap_or(false);
    match build(&m) {
        Err(_) => ctx.count("encode_panics_left_to_C09"),
        Ok(Err(e)) => {
            if too_long_1029 {
                ctx.count("1029_text_over_127_chars_refused");
            } else {
                ctx.violation(format!("C17.text_refused|{}|{}", number, e), "C17.text_refused", format!("msg {} with admissible text refused: {}", number, e), rpv());
            }
        }
        Ok(Ok(f)) => {
            if too_long_1029 {
                ctx.violation("C17.long_text_accepted|1029".into(), "C17.long_text_accepted", format!("1029 text of {} characters was encoded", held[0].chars().count()), rpv());
                return;
            }
            ctx.count_dyn(format!("round_trips:{}", number));
            match decode(&f) {
                Ok(Some(d)) => {
                    if d != m {
                        let dh = vtree::to_v(&d).map(|v| str_leaves(&v)).unwrap_or_default();
                        ctx.violation(
                            format!("C17.round_trip|{}", number),
                            "C17.round_trip",
                            format!("msg {}: text fields {:?} come back as {:?} ({}); frame={}", number, held.iter().map(|s| s.chars().take(20).collect::<String>()).collect::<Vec<_>>(), dh.iter().map(|s| s.chars().take(20).collect::<String>()).collect::<Vec<_>>(), msg_class(&d), hex_short(&f)),
                            rpv(),
                        );
                    }
                }
                Ok(None) => {}
                Err(_) => ctx.count("decode_panics_left_to_C02"),
            }
        }
    }
}

fn invalid_utf8_frame(ctx: &mut Ctx, rng: &mut Rng) {
    ctx.eval();
    let text = strings::invalid_utf8(rng);
    let mut b = bits::BitBuf::new();
    b.push(1029, 12);
    b.push(rng.u64() as u128, 45);
    // the character count field is whatever a foreign encoder made of it: plausible, zero, too small, too large
    let plausible = String::from_utf8_lossy(&text).chars().count().min(127);
    let chars = match rng.below(6) {
        0 => 0,
        1 => plausible.saturating_sub(1),
        2 => rng.below(128) as usize,
        3 => 127,
        _ => plausible,
    };
    b.push(chars as u128, 7);
    b.push(text.len() as u128, 8);
    debug_assert_eq!(b.nbits, layout::M1029_TEXT_BIT);
    b.push_bytes(&text);
    let f = crc::frame(&b.into_bytes());
    ctx.count("invalid_utf8_frames");
    match decode(&f) {
        Ok(Some(Message::Corrupt)) => {}
        Ok(Some(other)) => ctx.violation("C17.invalid_utf8_is_corrupt".into(), "C17.invalid_utf8_is_corrupt", format!("1029 frame with invalid UTF-8 text {:02x?} decodes to {}", &text[..text.len().min(24)], msg_class(&other)), json!({"kind":"frame","hex":crate::mon::hex(&f)})),
        Ok(None) => {}
        Err(p) => ctx.panic_violation("C17.no_panic", &p, "decoding 1029 with invalid UTF-8", json!({"kind":"frame","hex":crate::mon::hex(&f)})),
    }
    // and the valid twin decodes to the same text
    let good = strings::random_text(rng, 255);
    if good.chars().count() <= 127 {
        let mut b = bits::BitBuf::new();
        b.push(1029, 12);
        b.push(rng.u64() as u128, 45);
        b.push(good.chars().count() as u128, 7);
        b.push(good.len() as u128, 8);
        b.push_bytes(good.as_bytes());
        let f = crc::frame(&b.into_bytes());
        ctx.eval();
        match decode(&f) {
            Ok(Some(Message::Msg1029(t))) => {
                ctx.count("valid_utf8_frames_decoded");
                let s: &str = &t.text_str;
                if s != good {
                    ctx.violation("C17.utf8_frame_text".into(), "C17.utf8_frame_text", format!("1029 frame text {:?} decodes to {:?}", good.chars().take(30).collect::<String>(), s.chars().take(30).collect::<String>()), json!({"kind":"frame","hex":crate::mon::hex(&f)}));
                }
            }
            Ok(Some(other)) => ctx.violation("C17.valid_utf8_decodes".into(), "C17.valid_utf8_decodes", format!("1029 frame with valid text decodes to {}", msg_class(&other)), json!({"kind":"frame","hex":crate::mon::hex(&f)})),
            _ => {}
        }
    }
}

const TEXT_MSGS: [u16; 9] = [1007, 1008, 1021, 1022, 1029, 1033, 1300, 1301, 1302];

pub fn run(p: &Params) -> Outcome {
    let seed = p.seed;
    let n = p.size(1_500_000, 60_000_000);
    let per = n / p.workers as u64;
    let mut total = par::run(p.workers, move |w, _nw, ctx| {
        let mut rng = Rng::derive(seed, "C17", w as u64);
        if w == 0 {
            for s in strings::pool() {
                unit(ctx, &s);
            }
            // every single code point boundary class at every position around the capacities
            for cap in [7usize, 31, 127, 255] {
                for wide in ['\u{e9}', '\u{20ac}', '\u{1F600}', '\0', '\u{ff}', '\u{100}'] {
                    for lead in cap.saturating_sub(5)..=cap + 1 {
                        let mut s: String = std::iter::repeat('a').take(lead).collect();
                        s.push(wide);
                        s.push_str("zz");
                        unit(ctx, &s);
                    }
                }
            }
        }
        let bases: Vec<(u16, V)> = TEXT_MSGS
            .iter()
            .filter(|n| gen::is_supported(**n))
            .filter_map(|&n| (0..8).find_map(|_| gen::lib_frame(n, &mut rng).and_then(|f| decode(&f).ok().flatten()).filter(|m| m.number() == Some(n)).and_then(|m| vtree::to_v(&m).ok())).map(|v| (n, v)))
            .collect();
        if bases.len() < 5 {
            ctx.inconclusive("too few text-bearing base messages".into());
        }
        for i in 0..per {
            if ctx.saturated() {
                ctx.count("stopped_early_after_20000_violations");
                break;
            }
            let s = match i % 4 {
                0 => strings::hostile_string(&mut rng),
                1 => {
                    let cap = *rng.pick(&[7usize, 31, 127, 255]);
                    strings::straddle_string(&mut rng, cap)
                }
                _ => strings::random_string(&mut rng),
            };
            unit(ctx, &s);
            if !bases.is_empty() {
                let (n, b) = &bases[(i as usize) % bases.len()];
                message_round_trip(ctx, &mut rng, *n, b);
            }
            if i % 8 == 0 {
                invalid_utf8_frame(ctx, &mut rng);
            }
            if ctx.want_sample() && i % 1013 == 5 {
                ctx.sample(|| json!({"string_codepoints": s.chars().take(24).map(|c| c as u32).collect::<Vec<_>>(), "chars": s.chars().count(), "bytes": s.len(), "Df88591String<31>": ref_desc_chars(&s, 31).chars().take(24).collect::<String>(), "ArrayString<31>_bytes": ref_prefix(&s, 31).len()}));
            }
        }
    });
    for k in ["strings_with_NUL", "strings_with_latin1_high_half", "strings_with_astral_chars", "strings_with_char_straddling_a_capacity", "invalid_utf8_frames", "1029_text_over_127_chars_refused"] {
        if total.get(k) == 0 {
            total.inconclusive(format!("{} never observed", k));
        }
    }
    Outcome {
        ctx: total,
        rule: "hostile string pool, capacity-straddling strings and random Unicode strings through Df88591String<1,7,31>::from and ArrayString<4,7,31,255>::from (reference: first N chars, 1..=255 -> byte else 0xA4; longest whole-character prefix within N bytes), message round trips of all text-bearing messages, 1029 with > 127 characters => Err, reference-built 1029 frames with invalid UTF-8 => Corrupt; distinct by string hash".into(),
        exhaustive: false,
        extra: json!({}),
    }
}

pub fn replay(_p: &Params, v: &Value) -> Outcome {
    let mut ctx = Ctx::new(0);
    match v["kind"].as_str().unwrap_or("") {
        "string" => {
            let s: String = v["codepoints"].as_array().map(|a| a.iter().filter_map(|c| char::from_u32(c.as_u64().unwrap_or(0) as u32)).collect()).unwrap_or_default();
            unit(&mut ctx, &s);
        }
        "frame" => {
            let f = crate::mon::unhex(v["hex"].as_str().unwrap_or(""));
            ctx.eval();
            if let Ok(Some(m)) = decode(&f) {
                if !matches!(m, Message::Corrupt) {
                    ctx.violation("C17.invalid_utf8_is_corrupt".into(), "C17.invalid_utf8_is_corrupt", format!("decodes to {}", msg_class(&m)), v.clone());
                }
            }
        }
        "message" => match vtree::json_to_v(&v["vtree"]) {
            Some(t) => {
                let n = vtree::from_v::<Message>(&t).ok().and_then(|m| m.number()).unwrap_or(0);
                let mut rng = Rng::new(1);
                // replays the construction with the recorded strings (no new random text)
                let _ = &mut rng;
                ctx.eval();
                if let Ok(m) = vtree::from_v::<Message>(&t) {
                    if let Ok(Ok(f)) = build(&m) {
                        match decode(&f) {
                            Ok(Some(d)) if d == m => {}
                            _ => ctx.violation(format!("C17.round_trip|{}", n), "C17.round_trip", "text does not round trip".into(), v.clone()),
                        }
                    }
                }
            }
            None => ctx.inconclusive("tree does not parse".into()),
        },
        k => ctx.inconclusive(format!("unknown replay kind {}", k)),
    }
    Outcome { ctx, rule: "replay".into(), exhaustive: false, extra: json!({}) }
}
