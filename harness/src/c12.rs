//! C12: a builder's output depends only on the message, not on what it built before.

use crate::codec::build;
use crate::gen;
use crate::mon::{guard, hex_short, Ctx};
use crate::mutate::{self, Templates};
use crate::oracle::{bits, crc};
use crate::par;
use crate::rng::{mix, Rng};
use crate::vtree::{self, V};
use crate::{Outcome, Params};
use rtcm_rs::prelude::*;
use serde_json::{json, Value};

struct Entry {
    msg: Message,
    fresh: Result<Vec<u8>, String>,
    label: &'static str,
}

fn set_field(v: &mut V, name: &str, val: &V) -> bool {
    let mut hit = false;
    match v {
        V::Struct(_, fs) | V::StructVariant(_, _, _, fs) => {
            for (k, x) in fs.iter_mut() {
                if *k == name {
                    *x = val.clone();
                    hit = true;
                } else if set_field(x, name, val) {
                    hit = true;
                }
            }
        }
        V::Some(x) | V::Newtype(_, x) | V::NewtypeVariant(_, _, _, x) => hit = set_field(x, name, val),
        V::Seq(xs) | V::Tuple(xs) | V::TupleStruct(_, xs) | V::TupleVariant(_, _, _, xs) => {
            for x in xs.iter_mut() {
                if set_field(x, name, val) {
                    hit = true;
                }
            }
        }
        _ => {}
    }
    hit
}

/// late biased fields: a value below the bias makes the build fail after most of the body
const LATE_FAIL: &[(u16, &str)] = &[(1021, "b_t_m"), (1022, "b_t_m"), (1021, "a_s_m"), (1022, "a_s_m"), (1025, "sno_ppm"), (1027, "sil_ppm"), (1300, "coordinate_epoch_year"), (1301, "ref_epoch_t0_mjd"), (1020, "glo_m_n4_year")];

/// (A, refused variant of A', A'): A' is A with an early field changed, the refused variant additionally has a late
/// field out of range -- the caller corrects that field and tries again
type Retry = (usize, usize, usize);

fn make_pool(rng: &mut Rng, ctx: &mut Ctx) -> (Vec<Entry>, Vec<Retry>) {
    let mut retries: Vec<Retry> = Vec::new();
    let mut pool: Vec<Entry> = Vec::new();
    let mut tpl = Templates::default();
    let mut add = |pool: &mut Vec<Entry>, m: Message, label: &'static str, ctx: &mut Ctx| {
        if let Ok(fresh) = build(&m) {
            ctx.count(label);
            if fresh.is_err() {
                ctx.count("pool_entries_that_fail_to_build");
            }
            pool.push(Entry { msg: m, fresh, label });
        }
    };
    for &n in gen::supported_numbers() {
        // (a) library-generated valid message
        let mut base: Option<Message> = None;
        for _ in 0..3 {
            if let Some(f) = gen::lib_frame(n, rng) {
                if let Ok(Some(m)) = crate::codec::decode(&f) {
                    if m.number().is_some() {
                        base = Some(m.clone());
                        add(&mut pool, m, "pool_valid_typed", ctx);
                    }
                }
            }
        }
        // (b) all-ones maximum-length payload: long frames with every bit set
        let mut p = vec![0xFFu8; 1023];
        bits::write(&mut p, 0, 12, n as u128);
        if let Ok(Some(m)) = crate::codec::decode(&crc::frame(&p)) {
            if m.number().is_some() {
                add(&mut pool, m, "pool_decoded_from_all_ones_max_payload", ctx);
            }
        }
        // (b2) all-zero maximum-length payload: every real field exactly 0.0, every count 0
        let mut p = vec![0u8; 200];
        bits::write(&mut p, 0, 12, n as u128);
        if let Ok(Some(m)) = crate::codec::decode(&crc::frame(&p)) {
            if m.number().is_some() {
                add(&mut pool, m, "pool_decoded_from_all_zero_payload", ctx);
            }
        }
        // (c) hostile frames decoded
        for _ in 0..2 {
            let (f, _) = gen::wire_frame(rng, n);
            if let Ok(Some(m)) = crate::codec::decode(&f) {
                if m.number().is_some() {
                    add(&mut pool, m, "pool_decoded_from_hostile_frame", ctx);
                }
            }
        }
        // (d) mutants (many fail part-way: invalid satellites, mismatches, out of range)
        if let Some(b) = &base {
            if let Ok(v) = vtree::to_v(b) {
                tpl.learn(&v);
                for _ in 0..4 {
                    let mut mv = v.clone();
                    mutate::mutate(&mut mv, rng, &tpl);
                    if let Ok(Ok(m)) = guard(|| vtree::from_v::<Message>(&mv)) {
                        add(&mut pool, m, "pool_mutants", ctx);
                    }
                }
                // (e) late failures: a biased field set below its bias
                for (num, field) in LATE_FAIL {
                    if *num != n {
                        continue;
                    }
                    let cands = [V::Some(Box::new(V::F64(0.0))), V::F64(0.0), V::Some(Box::new(V::F32(0.0))), V::F32(0.0), V::U32(0), V::U16(0)];
                    for c in cands.iter() {
                        let mut mv = v.clone();
                        if !set_field(&mut mv, field, c) {
                            break;
                        }
                        if let Ok(Ok(m)) = guard(|| vtree::from_v::<Message>(&mv)) {
                            if matches!(build(&m), Ok(Err(_))) {
                                add(&mut pool, m, "pool_late_failing_biased_field", ctx);
                            }
                            break;
                        }
                    }
                }
            }
        }
    }
    // (h) the longest frames a message type can have: every list-bearing message at its capacity (random and all-ones
    // elements), as built by the reference
    for l in crate::oracle::layout::LISTS.iter() {
        for fill in [1usize, 2] {
            let total_bits = l.elems_bit + l.capacity * l.elem_bits;
            let nbytes = (total_bits + 7) / 8;
            if nbytes > 1023 {
                continue;
            }
            let mut p = if fill == 1 { vec![0xFFu8; nbytes] } else { rng.bytes(nbytes) };
            bits::write(&mut p, 0, 12, l.number as u128);
            bits::write(&mut p, l.count_bit, l.count_width, l.capacity as u128);
            if let Ok(Some(m)) = crate::codec::decode(&crc::frame(&p)) {
                if m.number() == Some(l.number) {
                    add(&mut pool, m, "pool_list_at_capacity", ctx);
                }
            }
        }
    }
    // (j) the longest frames that end inside a byte: 1059 with 390 biases over 58..=63 satellites (1016..1022 payload
    // bytes, 1..7 padding bits), all biases at the extremes so that the last bytes are mostly ones / zeros
    {
        use rtcm_rs::msg::{GpsSigId, Msg1059CodeBias, Msg1059T};
        let table = &crate::oracle::sig::SSR_GPS;
        for nsat in 58..=63usize {
            for variant in 0..2 {
                let mut t = Msg1059T::default();
                let mut left = 390usize;
                for s in 0..nsat {
                    // spread 390 entries: at least one per satellite, at most 12 (distinct signals)
                    let remaining_sats = nsat - s;
                    let k = ((left + remaining_sats - 1) / remaining_sats).min(12).max(1).min(left - (remaining_sats - 1));
                    for j in 0..k {
                        let bias = if variant == 0 { -0.01 } else { 81.91 };
                        t.biases.push(Msg1059CodeBias { satellite_id: s as u8, signal_id: GpsSigId::new(table[j].1, table[j].2), bias_m: bias });
                    }
                    left -= k;
                }
                add(&mut pool, Message::Msg1059(t), "pool_near_maximal_1059", ctx);
            }
        }
    }
    // (l) bias lists that end in a satellite whose only signals the message has no code for (the encoder writes the
    // satellite with a zero count): short tails of a few bits at various alignments
    {
        use rtcm_rs::msg::{GloSigId, GpsSigId, Msg1059CodeBias, Msg1059T, Msg1065CodeBias, Msg1065T};
        for lead in 0..8usize {
            let mut t = Msg1059T::default();
            for j in 0..lead {
                t.biases.push(Msg1059CodeBias { satellite_id: 5, signal_id: GpsSigId::new(crate::oracle::sig::SSR_GPS[j].1, crate::oracle::sig::SSR_GPS[j].2), bias_m: 0.25 });
            }
            t.biases.push(Msg1059CodeBias { satellite_id: 17, signal_id: GpsSigId::new(5, 'X'), bias_m: 1.0 });
            add(&mut pool, Message::Msg1059(t), "pool_bias_list_ending_in_uncodable_signal", ctx);
            let mut t = Msg1065T::default();
            for j in 0..lead.min(4) {
                t.biases.push(Msg1065CodeBias { satellite_id: 3, signal_id: GloSigId::new(crate::oracle::sig::SSR_GLO[j].1, crate::oracle::sig::SSR_GLO[j].2), bias_m: -0.5 });
            }
            t.biases.push(Msg1065CodeBias { satellite_id: 20, signal_id: GloSigId::new(3, 'I'), bias_m: 1.0 });
            add(&mut pool, Message::Msg1065(t), "pool_bias_list_ending_in_uncodable_signal", ctx);
        }
    }
    // (k) a target for every body length 10..=420 bytes that ends inside a byte (1059 with all biases at -0.01 =
    // all-ones codes), and descriptor messages with every string at capacity and all-ones characters as
    // predecessors: what one build leaves behind in the bytes just past another's end
    {
        use rtcm_rs::msg::{GpsSigId, Msg1059CodeBias, Msg1059T};
        let table = &crate::oracle::sig::SSR_GPS;
        for want in 10..=420usize {
            // bits = 67 + 11 * nsat + 19 * n
            let mut found = None;
            'f: for nsat in 1..=40usize {
                for n in nsat..=(12 * nsat).min(390) {
                    let bits_ = 67 + 11 * nsat + 19 * n;
                    if (bits_ + 7) / 8 == want && bits_ % 8 != 0 {
                        found = Some((nsat, n));
                        break 'f;
                    }
                }
            }
            if let Some((nsat, n)) = found {
                let mut t = Msg1059T::default();
                let mut left = n;
                for s_ in 0..nsat {
                    let rem = nsat - s_;
                    let k = ((left + rem - 1) / rem).min(12).max(1).min(left - (rem - 1));
                    for j in 0..k {
                        t.biases.push(Msg1059CodeBias { satellite_id: s_ as u8, signal_id: GpsSigId::new(table[j].1, table[j].2), bias_m: -0.01 });
                    }
                    left -= k;
                }
                add(&mut pool, Message::Msg1059(t), "pool_target_ladder_1059", ctx);
            }
        }
        for n in [1007u16, 1008, 1033] {
            for fill in [0xFFu8, 0x7F, b'U'] {
                for len in [31usize, 30] {
                    let text = vec![fill; len];
                    if let Ok(Some(m)) = crate::codec::decode(&gen::descriptor_frame(n, &text)) {
                        if m.number() == Some(n) {
                            add(&mut pool, m, "pool_descriptors_at_capacity", ctx);
                        }
                    }
                }
            }
        }
    }
    // (i) correct-and-retry triples
    let typed: Vec<usize> = (0..pool.len()).filter(|&i| pool[i].label == "pool_valid_typed" && pool[i].fresh.is_ok()).collect();
    for &a in typed.iter() {
        let v = match vtree::to_v(&pool[a].msg) {
            Ok(v) => v,
            Err(_) => continue,
        };
        let total = mutate::count_numeric(&mut v.clone());
        if total < 4 {
            continue;
        }
        // A': one of the first numeric leaves nudged, still accepted and encoding differently
        let mut a2: Option<(V, Message)> = None;
        for e in 0..total.min(12) {
            let mut mv = v.clone();
            mutate::nudge_leaf(&mut mv, e);
            if let Ok(Ok(m)) = guard(|| vtree::from_v::<Message>(&mv)) {
                if let Ok(Ok(f)) = build(&m) {
                    if Some(&f) != pool[a].fresh.as_ref().ok() && f.len() == pool[a].fresh.as_ref().map(|x| x.len()).unwrap_or(0) {
                        a2 = Some((mv, m));
                        break;
                    }
                }
            }
        }
        let (v2, m2) = match a2 {
            Some(x) => x,
            None => continue,
        };
        // refused variant: a late leaf of A' out of range
        let mut refused: Option<Message> = None;
        'outer: for back in 0..total.min(16) {
            for high in [true, false] {
                let mut mv = v2.clone();
                mutate::extreme_leaf(&mut mv, total - 1 - back, high);
                if let Ok(Ok(m)) = guard(|| vtree::from_v::<Message>(&mv)) {
                    if matches!(build(&m), Ok(Err(_))) {
                        refused = Some(m);
                        break 'outer;
                    }
                }
            }
        }
        if let Some(r) = refused {
            add(&mut pool, r, "pool_refused_variant_for_retry", ctx);
            let ri = pool.len() - 1;
            add(&mut pool, m2, "pool_corrected_retry", ctx);
            let ci = pool.len() - 1;
            if pool[ri].label == "pool_refused_variant_for_retry" && pool[ci].label == "pool_corrected_retry" && ri != ci {
                retries.push((a, ri, ci));
            }
        }
    }
    // (g) length ladder: a byte-aligned text message for every body length 9..=264 whose last byte ends in 1 bits,
    // so that a predecessor of every length (not just the lengths the other entries happen to have) is available
    for n in 0..=255usize {
        if let Some(m) = ladder_message(n) {
            add(&mut pool, m, "pool_length_ladder_1029", ctx);
        }
    }
    // (f) no wire form: fail at the first step
    add(&mut pool, Message::Empty, "pool_no_wire_form", ctx);
    add(&mut pool, Message::Corrupt, "pool_no_wire_form", ctx);
    add(&mut pool, Message::MsgNotSupported(rtcm_rs::msg::message::MsgNotSupportedT { message_number: 4000 }), "pool_no_wire_form", ctx);
    (pool, retries)
}

/// a 1029 message whose text is `n` bytes long: body = 9 + n bytes, byte aligned, last byte 0x7F or 0xBF
fn ladder_message(n: usize) -> Option<Message> {
    let mut pick = None;
    'o: for c3 in 0..=85usize {
        for c2 in 0..=127usize {
            if 3 * c3 + 2 * c2 <= n && (n - 3 * c3 - 2 * c2) + c2 + c3 <= 127 {
                pick = Some((n - 3 * c3 - 2 * c2, c2, c3));
                break 'o;
            }
        }
    }
    let (c1, c2, c3) = pick?;
    let mut text: Vec<u8> = vec![0x7F; c1];
    for _ in 0..c2 {
        text.extend_from_slice(&[0xC3, 0xBF]);
    }
    for _ in 0..c3 {
        text.extend_from_slice(&[0xEF, 0xBF, 0xBF]);
    }
    let mut p = vec![0u8; 9 + n];
    bits::write(&mut p, 0, 12, 1029);
    bits::write(&mut p, 12, 12, 0xFFF);
    bits::write(&mut p, 24, 16, 0xFFFF);
    bits::write(&mut p, 40, 17, 86399);
    bits::write(&mut p, 57, 7, (c1 + c2 + c3) as u128);
    bits::write(&mut p, 64, 8, n as u128);
    p[9..].copy_from_slice(&text);
    match crate::codec::decode(&crc::frame(&p)) {
        Ok(Some(m)) if m.number() == Some(1029) => Some(m),
        _ => None,
    }
}

/// index >= GEN_BASE in a history stands for a call of the other public build entry point,
/// `build_generated_message(number, seed)` (test_gen feature), on the same builder
const GEN_BASE: usize = 1 << 40;

fn gen_op(number: u16, seed: u32) -> usize {
    GEN_BASE + ((number as usize) << 32) + seed as usize
}

fn run_generated(b: &mut MessageBuilder, op: usize) -> Option<usize> {
    let number = ((op - GEN_BASE) >> 32) as u16;
    let seed = (op & 0xFFFF_FFFF) as u64;
    let mut vg = rtcm_rs::val_gen::ValGen::new(
        crate::rng::Stream::Random(Rng::new(seed)),
        crate::rng::Stream::Random(Rng::new(seed ^ 0x55)),
        crate::rng::Stream::Random(Rng::new(seed ^ 0xAA)),
    );
    b.build_generated_message(&mut vg, number).ok().map(|f| f.len())
}

/// The same history on a builder that is never replaced (one per worker, alive for the
/// whole run: hundreds of thousands of calls), so that anything depending on the *number* of
/// earlier calls gets its chance.
fn run_history_soak(ctx: &mut Ctx, soak: &mut MessageBuilder, calls: &mut u64, pool: &[Entry], hist: &[usize], target: usize) {
    ctx.eval();
    let t = &pool[target];
    let r = guard(|| {
        for &i in hist {
            if i >= GEN_BASE {
                let _ = run_generated(soak, i);
            } else {
                let _ = soak.build_message(&pool[i].msg).map(|x| x.len());
            }
        }
        match soak.build_message(&t.msg) {
            Ok(f) => Ok(f.to_vec()),
            Err(e) => Err(format!("{:?}", e)),
        }
    });
    *calls += hist.len() as u64 + 1;
    match r {
        Err(_) => {
            *soak = MessageBuilder::new();
            ctx.count("encode_panics_left_to_C09");
        }
        Ok(got) => {
            if got != t.fresh {
                let n_calls = *calls;
                ctx.violation_lazy("C12.history_independent|long_lived_builder".into(), "C12.history_independent", || {
                    (
                        format!(
                            "a builder that has served {} calls builds message {:?} to {} but a fresh builder gives {}",
                            n_calls,
                            t.msg.number(),
                            got.as_ref().map(|f| hex_short(f)).unwrap_or_else(|e| e.clone()),
                            t.fresh.as_ref().map(|f| hex_short(f)).unwrap_or_else(|e| e.clone())
                        ),
                        json!({"kind":"long_lived_builder","calls_before": n_calls, "note": "replay needs the whole call sequence of the worker; re-run the check with the same seed"}),
                    )
                });
            }
        }
    }
}

fn run_history(ctx: &mut Ctx, pool: &[Entry], hist: &[usize], target: usize) {
    ctx.eval();
    let t = &pool[target];
    let r = guard(|| {
        let mut b = MessageBuilder::new();
        for &i in hist {
            if i >= GEN_BASE {
                let _ = run_generated(&mut b, i);
            } else {
                let _ = b.build_message(&pool[i].msg).map(|x| x.len());
            }
        }
        match b.build_message(&t.msg) {
            Ok(f) => Ok(f.to_vec()),
            Err(e) => Err(format!("{:?}", e)),
        }
    });
    let got = match r {
        Ok(g) => g,
        Err(_) => {
            ctx.count("encode_panics_left_to_C09");
            return;
        }
    };
    // non-triviality: some predecessor was longer than the target or failed
    let tlen = t.fresh.as_ref().map(|f| f.len()).unwrap_or(0);
    let mut nontrivial = false;
    let mut residue_would_show = false;
    for &i in hist {
        if i >= GEN_BASE {
            nontrivial = true;
            continue;
        }
        match &pool[i].fresh {
            Ok(f) => {
                if f.len() > tlen {
                    nontrivial = true;
                }
                if let Ok(tf) = &t.fresh {
                    // the only bits a build does not rewrite are the padding bits of its last
                    // payload byte: does this predecessor have a 1 there?
                    let last = tf.len() - 4;
                    if f.len() - 3 > last && f[last] & !tf[last] != 0 {
                        residue_would_show = true;
                    }
                }
            }
            Err(_) => nontrivial = true,
        }
    }
    if !hist.is_empty() && nontrivial {
        let mut h = mix(target as u64, hist.len() as u64);
        for &i in hist {
            h = mix(h, i as u64);
        }
        ctx.nontrivial(h ^ ctx.worker as u64);
    }
    if residue_would_show {
        ctx.count("histories_where_stale_bits_would_be_visible");
    }
    if hist.iter().any(|&i| i >= GEN_BASE) {
        ctx.count("histories_with_build_generated_message_calls");
    }
    if hist.iter().any(|&i| i < GEN_BASE && pool[i].fresh.is_err()) {
        ctx.count("histories_with_failed_predecessor");
    }
    if got != t.fresh {
        let what = match (&got, &t.fresh) {
            (Ok(_), Ok(_)) => "bytes_differ",
            (Ok(_), Err(_)) => "ok_instead_of_err",
            (Err(_), Ok(_)) => "err_instead_of_ok",
            _ => "different_error",
        };
        let fresh = &t.fresh;
        ctx.violation_lazy(format!("C12.history_independent|{}", what), "C12.history_independent", || {
            let labels: Vec<&str> = hist.iter().map(|&i| if i >= GEN_BASE { "build_generated_message" } else { pool[i].label }).collect();
            (
                format!(
                    "after {} earlier builds ({:?}...), message {:?} builds to {} but a fresh builder gives {}",
                    hist.len(),
                    &labels[..labels.len().min(6)],
                    t.msg.number(),
                    got.as_ref().map(|f| hex_short(f)).unwrap_or_else(|e| e.clone()),
                    fresh.as_ref().map(|f| hex_short(f)).unwrap_or_else(|e| e.clone())
                ),
                json!({"kind":"history","messages": hist.iter().chain(std::iter::once(&target)).map(|&i| if i >= GEN_BASE { json!({"generated": [((i - GEN_BASE) >> 32) as u64, (i & 0xFFFF_FFFF) as u64]}) } else { vtree::to_v(&pool[i].msg).map(|v| vtree::v_to_json(&v)).unwrap_or(Value::Null) }).collect::<Vec<_>>()}),
            )
        });
    }
    if ctx.want_sample() && hist.len() >= 2 && nontrivial && ctx.evaluations % 401 == 0 {
        ctx.sample(|| json!({"history": hist.iter().map(|&i| if i >= GEN_BASE { format!("build_generated_message:{}", (i - GEN_BASE) >> 32) } else { format!("{}:{:?}:{}", pool[i].label, pool[i].msg.number(), pool[i].fresh.as_ref().map(|f| f.len().to_string()).unwrap_or_else(|e| e.clone())) }).collect::<Vec<_>>(), "target": format!("{:?} -> {} bytes", t.msg.number(), tlen)}));
    }
}

pub fn run(p: &Params) -> Outcome {
    let seed = p.seed;
    let n = p.size(1_000_000, 50_000_000);
    let per = n / p.workers as u64;
    let mut total = par::run(p.workers, move |w, _nw, ctx| {
        let mut rng = Rng::derive(seed, "C12", w as u64);
        let (pool, retries) = make_pool(&mut rng, ctx);
        if pool.len() < 50 {
            ctx.inconclusive(format!("message pool too small: {}", pool.len()));
            return;
        }
        ctx.count_n("pool_size_total", pool.len() as u64);
        let long: Vec<usize> = (0..pool.len()).filter(|&i| pool[i].fresh.as_ref().map(|f| f.len() > 400).unwrap_or(false)).collect();
        let failing: Vec<usize> = (0..pool.len()).filter(|&i| pool[i].fresh.is_err()).collect();
        let mut soak = MessageBuilder::new();
        let mut soak_calls: u64 = 0;
        // every target after a successful build of every body length 9..=264 (the ladder), alone and after a failure
        let ladder: Vec<usize> = (0..pool.len()).filter(|&i| (pool[i].label == "pool_length_ladder_1029" || pool[i].label == "pool_list_at_capacity") && pool[i].fresh.is_ok()).collect();
        // build A; a changed message is refused part-way; the caller corrects the offending field and tries again
        for &(a, r, c) in retries.iter() {
            ctx.count("correct_and_retry_histories");
            run_history(ctx, &pool, &[a, r], c);
            run_history(ctx, &pool, &[a, r, r], c);
            run_history(ctx, &pool, &[c, r], a);
        }
        ctx.max("length_ladder_entries", ladder.len() as f64);
        // the near-maximal frames after every capacity list, on every worker (few, and the only place where the
        // last payload bytes of the buffer matter)
        let near_max: Vec<usize> = (0..pool.len()).filter(|&i| pool[i].label == "pool_near_maximal_1059").collect();
        for &t in near_max.iter() {
            for &l in ladder.iter().filter(|&&l| pool[l].label == "pool_list_at_capacity") {
                ctx.count("near_maximal_target_after_capacity_list");
                run_history(ctx, &pool, &[l], t);
            }
            for &l2 in near_max.iter() {
                run_history(ctx, &pool, &[l2], t);
            }
        }
        // every length of the target ladder after the predecessors that are special to one message type (strings and
        // lists at capacity, the longest bias lists), sharded by target
        let special: Vec<usize> = (0..pool.len()).filter(|&i| matches!(pool[i].label, "pool_descriptors_at_capacity" | "pool_list_at_capacity" | "pool_near_maximal_1059") && pool[i].fresh.is_ok()).collect();
        for (ti, t) in (0..pool.len()).filter(|&i| pool[i].label == "pool_target_ladder_1059").enumerate() {
            if ti % _nw != w {
                continue;
            }
            for &sp in special.iter() {
                ctx.count("target_ladder_histories");
                run_history(ctx, &pool, &[sp], t);
            }
        }
        for target in (0..pool.len()).filter(|t| t % _nw == w) {
            if ctx.saturated() {
                break;
            }
            for &l in ladder.iter() {
                ctx.count("ladder_histories");
                run_history(ctx, &pool, &[l], target);
            }
            // and right after each failing entry (a refused message leaves its partial payload behind)
            for &f in failing.iter() {
                ctx.count("failure_then_target_histories");
                run_history(ctx, &pool, &[f], target);
            }
        }
        for i in 0..per {
            let len = match rng.below(6) {
                0 => 1,
                1 => 2,
                2 => rng.range(3, 8) as usize,
                _ => rng.range(1, 50) as usize,
            };
            let nums = gen::supported_numbers();
            let mut hist: Vec<usize> = (0..len).map(|_| if rng.chance(1, 8) { gen_op(*rng.pick(nums), rng.u32()) } else { rng.usize_below(pool.len()) }).collect();
            // bias: end the history with a long or a failing build
            match rng.below(4) {
                0 if !long.is_empty() && *hist.last().unwrap() < GEN_BASE => *hist.last_mut().unwrap() = *rng.pick(&long),
                1 if !failing.is_empty() => *hist.last_mut().unwrap() = *rng.pick(&failing),
                _ => {}
            }
            let target = rng.usize_below(pool.len());
            if ctx.saturated() {
                ctx.count("stopped_early_after_20000_violations");
                break;
            }
            run_history(ctx, &pool, &hist, target);
            run_history_soak(ctx, &mut soak, &mut soak_calls, &pool, &hist, target);
            if i % 64 == 0 {
                // every pool entry right after the longest all-ones build
                if let Some(&l) = long.first() {
                    run_history(ctx, &pool, &[l], target);
                }
            }
        }
        ctx.max("calls_on_the_longest_lived_builder", soak_calls as f64);
        ctx.count_n("calls_on_long_lived_builders", soak_calls);
    });
    total.max("calls_on_the_longest_lived_builder", 0.0);
    total.max("length_ladder_entries", 0.0);
    for k in ["target_ladder_histories", "pool_descriptors_at_capacity", "near_maximal_target_after_capacity_list", "correct_and_retry_histories", "pool_list_at_capacity", "ladder_histories", "failure_then_target_histories", "pool_late_failing_biased_field", "pool_decoded_from_all_ones_max_payload", "histories_where_stale_bits_would_be_visible", "histories_with_failed_predecessor", "pool_entries_that_fail_to_build"] {
        if total.get(k) == 0 {
            total.inconclusive(format!("{} never observed", k));
        }
    }
    Outcome {
        ctx: total,
        rule: "history = 1..50 build calls on one MessageBuilder drawn from a pool (valid messages of every type, messages decoded from all-ones maximum-length payloads, hostile decodes, mutants that fail part-way, late-failing biased fields, no-wire-form variants, a 1029 text message for every body length 9..=264, every list-bearing message at capacity, refused variants with their corrected retries) followed by a target; correct-and-retry triples (A, refused variant of A', A'); additionally every pool entry as target right after every ladder entry and right after every failing entry; oracle: bytes and Ok/Err class equal a fresh builder's; non-trivial = at least one longer-than-target or failed predecessor; distinct by (history, target) hash".into(),
        exhaustive: false,
        extra: json!({}),
    }
}

pub fn replay(_p: &Params, v: &Value) -> Outcome {
    let mut ctx = Ctx::new(0);
    let mut pool: Vec<Entry> = Vec::new();
    let mut hist: Vec<usize> = Vec::new();
    for j in v["messages"].as_array().cloned().unwrap_or_default() {
        if let Some(g) = j.get("generated") {
            hist.push(gen_op(g[0].as_u64().unwrap_or(1005) as u16, g[1].as_u64().unwrap_or(0) as u32));
        } else if let Some(m) = vtree::json_to_v(&j).and_then(|t| vtree::from_v::<Message>(&t).ok()) {
            if let Ok(fresh) = build(&m) {
                pool.push(Entry { msg: m, fresh, label: "replay" });
                hist.push(pool.len() - 1);
            }
        }
    }
    match hist.pop() {
        Some(target) if target < GEN_BASE => run_history(&mut ctx, &pool, &hist, target),
        _ => ctx.inconclusive("empty history".into()),
    }
    Outcome { ctx, rule: "replay of one recorded history".into(), exhaustive: false, extra: json!({}) }
}
