//! Workload generators shared by the monitors (DESIGN.md section 2).

pub mod strings;

use crate::oracle::bits;
use crate::oracle::crc;
use crate::oracle::layout::{self, is_msm};
use crate::rng::{Rng, Stream};
use rtcm_rs::prelude::*;
use rtcm_rs::val_gen::ValGen;
use std::sync::OnceLock;

pub fn repo_dir() -> String {
    std::env::var("VERIF_REPO")
        .unwrap_or_else(|_| concat!(env!("CARGO_MANIFEST_DIR"), "/../../../repo").to_string())
}

/// Supported message numbers = features `msgNNNN` listed in the tree's Cargo.toml.
pub fn supported_numbers() -> &'static [u16] {
    static S: OnceLock<Vec<u16>> = OnceLock::new();
    S.get_or_init(|| {
        let p = format!("{}/Cargo.toml", repo_dir());
        let txt = std::fs::read_to_string(&p).unwrap_or_else(|e| panic!("cannot read {}: {}", p, e));
        let mut v = Vec::new();
        let mut in_features = false;
        for line in txt.lines() {
            let t = line.trim();
            if t.starts_with('[') {
                in_features = t == "[features]";
                continue;
            }
            if !in_features {
                continue;
            }
            // feature definitions: `msg1001 = []`
            if let Some(eq) = t.find('=') {
                let name = t[..eq].trim().trim_matches('"');
                if let Some(num) = name.strip_prefix("msg") {
                    if let Ok(n) = num.parse::<u16>() {
                        v.push(n);
                    }
                }
            }
        }
        v.sort();
        v.dedup();
        v
    })
}

/// The `all_msgs` list of Cargo.toml (feature names inside the array).
pub fn all_msgs_list() -> Vec<u16> {
    let p = format!("{}/Cargo.toml", repo_dir());
    let txt = std::fs::read_to_string(&p).unwrap_or_default();
    let mut v = Vec::new();
    if let Some(s) = txt.find("all_msgs = [") {
        let rest = &txt[s..];
        if let Some(e) = rest.find(']') {
            for tok in rest[..e].split(|c| c == ',' || c == '[' || c == '\n') {
                let t = tok.trim().trim_matches('"');
                if let Some(num) = t.strip_prefix("msg") {
                    if let Ok(n) = num.parse::<u16>() {
                        v.push(n);
                    }
                }
            }
        }
    }
    v.sort();
    v
}

pub fn is_supported(n: u16) -> bool {
    supported_numbers().binary_search(&n).is_ok()
}

/// A valid frame of type n from the library's own generator, driven by our streams.
/// Used as a workload source only (valid, on-grid, canonical frames).
pub fn lib_frame(n: u16, rng: &mut Rng) -> Option<Vec<u8>> {
    let mode = rng.below(10);
    // rng_rng (which == 2) is always a real random stream: the library's MSM generator
    // draws distinct cells by rejection and would spin forever on a constant stream.
    let mk = |rng: &mut Rng, which: u64| -> Stream {
        match (mode, which) {
            (_, 2) => Stream::Random(Rng::new(rng.u64())),
            (0, _) => Stream::Const(0),
            (1, _) => Stream::Const(u64::MAX),
            (2, 1) => Stream::Const(u64::MAX),             // len_rng: capacities
            (3, 0) => Stream::Spiked(Rng::new(rng.u64()), 3, 0), // invalid markers often
            (4, 1) => Stream::Spiked(Rng::new(rng.u64()), 2, 0),
            _ => Stream::Random(Rng::new(rng.u64())),
        }
    };
    let f = mk(rng, 0);
    let l = mk(rng, 1);
    let r = mk(rng, 2);
    let mut vg = ValGen::new(f, l, r);
    let mut b = MessageBuilder::new();
    let res = crate::mon::guard(|| b.build_generated_message(&mut vg, n).map(|x| x.to_vec()));
    match res {
        Ok(Ok(v)) => Some(v),
        _ => None,
    }
}

/// A plain random valid frame from the library generator (never degenerate streams).
pub fn lib_frame_random(n: u16, rng: &mut Rng) -> Option<Vec<u8>> {
    let mut vg = ValGen::new(
        Stream::Random(Rng::new(rng.u64())),
        Stream::Random(Rng::new(rng.u64())),
        Stream::Random(Rng::new(rng.u64())),
    );
    let mut b = MessageBuilder::new();
    let res = crate::mon::guard(|| b.build_generated_message(&mut vg, n).map(|x| x.to_vec()));
    match res {
        Ok(Ok(v)) => Some(v),
        _ => None,
    }
}

/// natural payload length per supported number (from one library-generated frame with
/// capacity-forcing length stream, so lists are full)
pub fn natural_len(n: u16) -> usize {
    static T: OnceLock<Vec<(u16, usize)>> = OnceLock::new();
    let t = T.get_or_init(|| {
        let mut v = Vec::new();
        for &n in supported_numbers() {
            let mut best = 0usize;
            for k in 0..4u64 {
                let mut vg = ValGen::new(
                    Stream::Random(Rng::new(77 + k)),
                    if k == 0 { Stream::Const(u64::MAX) } else { Stream::Random(Rng::new(5 + k)) },
                    Stream::Random(Rng::new(99 + k)),
                );
                let mut b = MessageBuilder::new();
                if let Ok(Ok(f)) = crate::mon::guard(|| b.build_generated_message(&mut vg, n).map(|x| x.len())) {
                    best = best.max(f.saturating_sub(6));
                }
            }
            if best < 2 {
                best = 64;
            }
            v.push((n, best));
        }
        v
    });
    t.iter().find(|x| x.0 == n).map(|x| x.1).unwrap_or(64)
}

#[derive(Clone, Copy, Debug, PartialEq, Eq)]
pub enum Hostile {
    None,
    CountAboveCap,
    CountPatched,
    MsmValid,
    MsmZeroProduct,
    MsmOver64,
    BiasOverflow,
    BiasStructured,
    Utf8Valid,
    Utf8Invalid,
    StrLenPatched,
}

impl Hostile {
    pub fn name(self) -> &'static str {
        match self {
            Hostile::None => "plain",
            Hostile::CountAboveCap => "count_above_capacity",
            Hostile::CountPatched => "count_patched",
            Hostile::MsmValid => "msm_masks_valid",
            Hostile::MsmZeroProduct => "msm_masks_zero_product",
            Hostile::MsmOver64 => "msm_masks_over_64_cells",
            Hostile::BiasOverflow => "bias_container_overflow",
            Hostile::BiasStructured => "bias_structured",
            Hostile::Utf8Valid => "utf8_valid_text",
            Hostile::Utf8Invalid => "utf8_invalid_text",
            Hostile::StrLenPatched => "string_length_patched",
        }
    }
}

fn put_number(p: &mut [u8], n: u16) {
    if p.len() >= 2 {
        bits::write(p, 0, 12, n as u128);
    }
}

fn fill(rng: &mut Rng, p: &mut [u8]) {
    match rng.below(6) {
        0 => {}
        1 => p.iter_mut().for_each(|b| *b = 0xFF),
        2 => {
            // sparse ones
            let k = rng.below(12) + 1;
            for _ in 0..k {
                if !p.is_empty() {
                    let pos = rng.usize_below(p.len() * 8);
                    bits::set_bit(p, pos, true);
                }
            }
        }
        3 => {
            // sparse zeros
            p.iter_mut().for_each(|b| *b = 0xFF);
            let k = rng.below(12) + 1;
            for _ in 0..k {
                if !p.is_empty() {
                    let pos = rng.usize_below(p.len() * 8);
                    bits::set_bit(p, pos, false);
                }
            }
        }
        _ => rng.fill(p),
    }
}

fn random_subset(rng: &mut Rng, universe: usize, k: usize) -> Vec<usize> {
    let mut v: Vec<usize> = (0..universe).collect();
    rng.shuffle(&mut v);
    v.truncate(k);
    v.sort();
    v
}

/// Write MSM masks for chosen counts (ns satellites, ng signal positions among 1..=32,
/// any position, recognised or not) and a random cell mask.
fn patch_msm(rng: &mut Rng, p: &mut [u8], ns: usize, ng: usize) {
    if p.len() * 8 < layout::MSM_CELL_MASK_BIT {
        return;
    }
    let s = random_subset(rng, 64, ns);
    let g = random_subset(rng, 32, ng);
    let mut sm = 0u64;
    for x in s {
        sm |= 1u64 << (63 - x);
    }
    let mut gm = 0u32;
    for x in g {
        gm |= 1u32 << (31 - x);
    }
    bits::write(p, layout::MSM_SAT_MASK_BIT, 64, sm as u128);
    bits::write(p, layout::MSM_SIG_MASK_BIT, 32, gm as u128);
    // structured cell masks (random payload bits would make every special mask a 2^-64 event)
    let ncell = ns * ng;
    if ncell >= 1 && ncell <= 64 && p.len() * 8 >= layout::MSM_CELL_MASK_BIT + ncell {
        let full: u64 = if ncell == 64 { u64::MAX } else { (1u64 << ncell) - 1 };
        let cm: Option<u64> = match rng.below(12) {
            0 => Some(full),
            1 => Some(1),                       // only the last cell
            2 => Some(1u64 << (ncell - 1)),     // only the first cell
            3 => Some(0),                       // no cell at all
            4 => Some(1u64 << rng.below(ncell as u64)),
            5 => Some(full ^ (1u64 << rng.below(ncell as u64))),
            6 => Some(0x5555_5555_5555_5555 & full),
            7 => Some(full & !1),
            _ => None,                          // keep the payload's own (random) bits
        };
        if let Some(cm) = cm {
            bits::write(p, layout::MSM_CELL_MASK_BIT, ncell, cm as u128);
        }
    }
}

fn patch_bias(rng: &mut Rng, p: &mut Vec<u8>, n: u16) -> Hostile {
    // structured 1059/1065 body: sat count, per-sat id + bias count + biases
    let (cbit, idw) = if n == 1059 { (layout::M1059_COUNT_BIT, 6) } else { (layout::M1065_COUNT_BIT, 5) };
    if rng.chance(1, 5) {
        // the list capacity (390) reached exactly at the end of a block -- or one short of it, or one past it --
        // and then more blocks: uniform block sizes dividing 390 or a random partition
        p.resize(1023, 0);
        let recognised: Vec<u8> = if n == 1059 { crate::oracle::sig::SSR_GPS.iter().map(|x| x.0).collect() } else { crate::oracle::sig::SSR_GLO.iter().map(|x| x.0).collect() };
        let target = (390 + rng.range(-1, 1)) as usize;
        let mut blocks: Vec<usize> = Vec::new();
        if rng.bool() {
            let c = *rng.pick(&[10usize, 13, 15, 26, 30]);
            while blocks.iter().sum::<usize>() + c <= target {
                blocks.push(c);
            }
            let rest = target - blocks.iter().sum::<usize>();
            if rest > 0 {
                blocks.push(rest);
            }
        } else {
            while blocks.iter().sum::<usize>() < target {
                let left = target - blocks.iter().sum::<usize>();
                blocks.push((rng.range(7, 31) as usize).min(left));
            }
        }
        for _ in 0..rng.range(1, 3) {
            blocks.push(rng.range(1, 6) as usize);
        }
        blocks.truncate(63);
        bits::write(p, cbit, 6, blocks.len() as u128);
        let mut pos = cbit + 6;
        let ids: Vec<u64> = {
            let mut v: Vec<u64> = (0..(1u64 << idw)).collect();
            rng.shuffle(&mut v);
            v
        };
        for (bi, &nb) in blocks.iter().enumerate() {
            if pos + idw + 5 + nb * 19 > 1023 * 8 {
                break;
            }
            bits::write(p, pos, idw, ids[bi % ids.len()] as u128);
            pos += idw;
            bits::write(p, pos, 5, nb as u128);
            pos += 5;
            for _ in 0..nb {
                bits::write(p, pos, 5, *rng.pick(&recognised) as u128);
                bits::write(p, pos + 5, 14, rng.below(1 << 14) as u128);
                pos += 19;
            }
        }
        p.truncate(((pos + 7) / 8).min(1023));
        return Hostile::BiasOverflow;
    }
    let total_bits = p.len() * 8;
    if total_bits < cbit + 6 {
        return Hostile::None;
    }
    let overflow = rng.chance(1, 3);
    let nsat = if overflow { rng.range(13, 63) as usize } else { rng.range(0, 63) as usize };
    bits::write(p, cbit, 6, nsat as u128);
    let mut pos = cbit + 6;
    let recognised: Vec<u8> = if n == 1059 {
        crate::oracle::sig::SSR_GPS.iter().map(|x| x.0).collect()
    } else {
        crate::oracle::sig::SSR_GLO.iter().map(|x| x.0).collect()
    };
    // satellite ids of the blocks: independent, all the same (one satellite collecting hundreds
    // of entries over many blocks), or alternating between two
    let policy = rng.below(4);
    let compact = rng.chance(1, 3);
    let fixed = [rng.below(1 << idw), rng.below(1 << idw)];
    for bi in 0..nsat {
        if pos + idw + 5 > total_bits {
            break;
        }
        let id = match policy {
            0 => fixed[0],
            1 => fixed[bi % 2],
            _ => rng.below(1 << idw),
        };
        bits::write(p, pos, idw, id as u128);
        pos += idw;
        let nb = if overflow { 31 } else { rng.below(32) as usize };
        bits::write(p, pos, 5, nb as u128);
        pos += 5;
        for _ in 0..nb {
            if pos + 19 > total_bits {
                break;
            }
            // `compact`: the frame is laid out the way the decoders read it -- an entry with an id outside the table
            // takes 5 bits, its bias is not there (section 5, out-of-scope note) -- so that the blocks behind it
            // still line up for the decoder and hundreds of recognised entries follow
            let sig = if compact {
                if rng.chance(1, 12) {
                    rng.below(32) as u8
                } else {
                    *rng.pick(&recognised)
                }
            } else if overflow || rng.chance(3, 4) {
                *rng.pick(&recognised)
            } else {
                rng.below(32) as u8
            };
            bits::write(p, pos, 5, sig as u128);
            if compact && !recognised.contains(&sig) {
                pos += 5;
                continue;
            }
            bits::write(p, pos + 5, 14, rng.below(1 << 14) as u128);
            pos += 19;
        }
    }
    if overflow {
        Hostile::BiasOverflow
    } else {
        Hostile::BiasStructured
    }
}

fn patch_1029(rng: &mut Rng, p: &mut Vec<u8>) -> Hostile {
    if p.len() * 8 < layout::M1029_TEXT_BIT {
        return Hostile::None;
    }
    let valid = rng.bool();
    let mut text: Vec<u8> = if valid {
        let s = strings::random_text(rng, 255);
        s.into_bytes()
    } else {
        strings::invalid_utf8(rng)
    };
    if valid && rng.chance(1, 4) {
        // a C string in a fixed buffer: wide characters, then NUL fill
        let mut s: String = String::new();
        for _ in 0..rng.range(1, 20) {
            s.push(*rng.pick(&['a', '\u{e9}', '\u{4e2d}', '\u{1f6f0}', 'Z', '\u{df}']));
        }
        for _ in 0..rng.range(1, 12) {
            s.push('\0');
        }
        text = s.into_bytes();
        text.truncate(255);
        while std::str::from_utf8(&text).is_err() {
            text.pop();
        }
    }
    let hdr = layout::M1029_TEXT_BIT / 8;
    p.truncate(hdr);
    let declared = if rng.chance(1, 8) { rng.below(256) as usize } else { text.len().min(255) };
    let plausible = String::from_utf8_lossy(&text).chars().count().min(127);
    let chars = match rng.below(8) {
        0 => 0,
        1 => plausible.saturating_sub(rng.range(1, 4) as usize),
        2 | 3 => rng.below(128) as usize,
        _ => plausible,
    };
    bits::write(p, layout::M1029_CHARS_BIT, 7, chars as u128);
    bits::write(p, layout::M1029_BYTES_BIT, 8, declared as u128);
    p.extend_from_slice(&text[..text.len().min(255)]);
    if rng.chance(1, 4) {
        let extra = rng.usize_below(8);
        let e = rng.bytes(extra);
        p.extend_from_slice(&e);
    }
    p.truncate(1023);
    if valid {
        Hostile::Utf8Valid
    } else {
        Hostile::Utf8Invalid
    }
}

/// A CRC-valid frame for message number n with a generated (possibly hostile) payload,
/// built without the library's encoder.  Returns the frame and the hostile class used.
pub fn wire_frame(rng: &mut Rng, n: u16) -> (Vec<u8>, Hostile) {
    let nat = natural_len(n).clamp(2, 1023);
    let len = match rng.below(12) {
        0 => 2,
        1 => 3,
        2 => rng.range(4, 24) as usize,
        3 | 4 => nat,
        5 => rng.range(2, nat as i64) as usize,
        6 => (nat + rng.usize_below(6)).min(1023),
        7 | 8 => rng.range(2, 1023) as usize,
        _ => 1023,
    };
    let mut p = vec![0u8; len];
    let mut base_used = false;
    if rng.chance(1, 4) {
        // mutated copy of a valid payload
        if let Some(f) = lib_frame(n, rng) {
            let body = &f[3..f.len() - 3];
            let m = body.len().min(len);
            p[..m].copy_from_slice(&body[..m]);
            let flips = rng.below(6);
            for _ in 0..flips {
                let pos = rng.usize_below(len * 8);
                bits::flip_bit(&mut p, pos);
            }
            base_used = true;
        }
    }
    if !base_used {
        fill(rng, &mut p);
    }
    put_number(&mut p, n);
    let mut h = Hostile::None;
    if is_msm(n) && rng.chance(3, 4) {
        match rng.below(8) {
            0 => {
                let c = rng_pick_count(rng, 64);
                patch_msm(rng, &mut p, c, 0);
                h = Hostile::MsmZeroProduct;
            }
            1 => {
                let c = rng_pick_count(rng, 32);
                patch_msm(rng, &mut p, 0, c);
                h = Hostile::MsmZeroProduct;
            }
            2 | 3 => {
                // more than 64 cells, up to 64 x 32
                let ns = rng.range(3, 64) as usize;
                let min_g = 64 / ns + 1;
                let ng = rng.range(min_g.min(32) as i64, 32) as usize;
                patch_msm(rng, &mut p, ns, ng);
                h = if ns * ng > 64 { Hostile::MsmOver64 } else { Hostile::MsmValid };
            }
            4 => {
                // exactly 64 cells in every factorisation
                let (ns, ng) = *rng.pick(&[(64usize, 1usize), (32, 2), (16, 4), (8, 8), (4, 16), (2, 32)]);
                patch_msm(rng, &mut p, ns, ng);
                h = Hostile::MsmValid;
            }
            _ => {
                let ng = rng.range(1, 8) as usize;
                let ns = rng.range(1, (64 / ng) as i64) as usize;
                patch_msm(rng, &mut p, ns, ng);
                h = Hostile::MsmValid;
            }
        }
    } else if let Some(l) = layout::list_layout(n) {
        if rng.chance(2, 3) && p.len() * 8 >= l.count_bit + l.count_width {
            let maxv = (1usize << l.count_width) - 1;
            let c = if maxv > l.capacity && rng.chance(1, 3) {
                h = Hostile::CountAboveCap;
                rng.range(l.capacity as i64 + 1, maxv as i64) as usize
            } else {
                h = Hostile::CountPatched;
                rng.range(0, l.capacity.min(maxv) as i64) as usize
            };
            bits::write(&mut p, l.count_bit, l.count_width, c as u128);
        }
    } else if n == 1059 || n == 1065 {
        if rng.chance(3, 4) {
            h = patch_bias(rng, &mut p, n);
        }
    } else if n == 1029 {
        if rng.chance(3, 4) {
            h = patch_1029(rng, &mut p);
        }
    } else if layout::STR8_AT_24.contains(&n) && rng.chance(1, 2) && p.len() >= 4 {
        let v = match rng.below(4) {
            0 => rng.range(32, 255) as u8,
            _ => rng.range(0, 31) as u8,
        };
        p[3] = v;
        h = Hostile::StrLenPatched;
    }
    // the six reserved header bits are not always zero on the wire
    let res = if rng.chance(1, 8) { rng.range(1, 63) as u8 } else { 0 };
    (crc::frame_with_reserved(&p, res), h)
}

fn rng_pick_count(rng: &mut Rng, max: usize) -> usize {
    rng.range(1, max as i64) as usize
}

/// A frame with an arbitrary 12-bit number and a short/long payload (C02, C14).
pub fn any_number_frame(rng: &mut Rng, n: u16, len: usize) -> Vec<u8> {
    let mut p = vec![0u8; len];
    fill(rng, &mut p);
    put_number(&mut p, n);
    crc::frame(&p)
}

/// Streams (DESIGN 2.4): concatenations of valid frames, garbage, lone 0xD3 bytes, frames
/// with damaged CRC, truncated frames, headers announcing long bodies, nested frames.
/// Returns the stream and a label set describing what went into it.
pub fn stream(rng: &mut Rng, max_len: usize) -> (Vec<u8>, u32) {
    let mut s: Vec<u8> = Vec::new();
    let mut tags = 0u32;
    let nseg = rng.range(0, 9) as usize;
    let mut last_frame: Option<Vec<u8>> = None;
    for _ in 0..nseg {
        if s.len() >= max_len {
            break;
        }
        let start = s.len();
        let k = rng.below(18);
        match k {
            17 => {
                // another protocol's correctly checksummed frame whose payload holds an RTCM frame, a cut frame or
                // stray preambles: u-blox UBX (b5 62, class, id, little-endian length, payload, 8-bit Fletcher) or
                // an NMEA-style sentence with a correct *hh
                let mut inner: Vec<u8> = Vec::new();
                match rng.below(3) {
                    0 => {
                        let l = rng.usize_below(40);
                        let p = rng.bytes(l);
                        inner.extend(crc::frame(&p));
                    }
                    1 => {
                        let l = rng.range(4, 40) as usize;
                        let p = rng.bytes(l);
                        let f = crc::frame(&p);
                        let cut = rng.range(1, f.len() as i64 - 1) as usize;
                        inner.extend_from_slice(&f[..cut]);
                    }
                    _ => {
                        inner.extend_from_slice(&[0x11, 0xD3, 0x00, 0x22]);
                    }
                }
                let pre = rng.usize_below(4);
                let mut payload = rng.bytes(pre);
                payload.extend(inner);
                if rng.bool() {
                    let mut u = vec![0xB5u8, 0x62, rng.u8(), rng.u8(), payload.len() as u8, (payload.len() >> 8) as u8];
                    u.extend_from_slice(&payload);
                    let (mut a, mut b) = (0u8, 0u8);
                    for x in &u[2..] {
                        a = a.wrapping_add(*x);
                        b = b.wrapping_add(a);
                    }
                    u.push(a);
                    u.push(b);
                    s.extend(u);
                } else {
                    let mut t = b"$PRTCM,".to_vec();
                    t.extend_from_slice(&payload);
                    let cs = t[1..].iter().fold(0u8, |a, x| a ^ x);
                    t.extend_from_slice(format!("*{:02X}\r\n", cs).as_bytes());
                    s.extend(t);
                }
                tags |= 32768;
            }
            16 => {
                // bytes one bit away from the preamble (what a word-at-a-time search for 0xD3 may confuse with it)
                const NEAR: [u8; 8] = [0xD2, 0xD1, 0xD7, 0xDB, 0xC3, 0xF3, 0x93, 0x53];
                for _ in 0..rng.range(1, 9) {
                    s.push(*rng.pick(&NEAR));
                }
                tags |= 16384;
            }
            15 => {
                // what real links put between frames: line ends, other protocols' sync bytes, text
                const DELIMITERS: [&[u8]; 14] = [b"$GPGGA,", b"$GNRMC,083559.00,A", b"$PUBX,00,", b"$GPGSV,3,1,11,03,03,111,00", b"\r\n", b"\n", b"\r", b"\r\n\r\n", b"$GPGGA,123519,4807.038,N*47\r\n", &[0xB5, 0x62, 0x01, 0x07], &[0x24, 0x40], &[0x10, 0x03], &[0x7E], b"ICY 200 OK\r\n"];
                s.extend_from_slice(*rng.pick(&DELIMITERS));
                tags |= 8192;
            }
            14 => {
                // a valid frame whose checksum is 00 00 00 (payload ends with the CRC-24Q of
                // everything before it) or whose register passes through zero mid-frame
                let l = rng.range(3, 60) as usize;
                let mut p = rng.bytes(l);
                let j = if rng.bool() { l - 3 } else { rng.usize_below(l - 2) };
                let mut pre = vec![0xD3u8, ((l >> 8) & 3) as u8, l as u8];
                pre.extend_from_slice(&p[..j]);
                let c = crc::crc24q(&pre);
                p[j] = (c >> 16) as u8;
                p[j + 1] = (c >> 8) as u8;
                p[j + 2] = c as u8;
                s.extend(crc::frame(&p));
                tags |= 1;
                tags |= 4096;
            }
            13 => {
                // the previous frame again: identical, or with damage / changed reserved bits
                // (anything that remembers the last frame must not be fooled by a near-copy)
                if let Some(f) = &last_frame {
                    let mut g = f.clone();
                    match rng.below(6) {
                        0 => {}
                        1 => g[1] ^= (1 + rng.below(63) as u8) << 2, // reserved bits, stale CRC
                        2 => {
                            let nb = g.len() * 8;
                            let pos = (24 + rng.usize_below((g.len() - 3) * 8)).min(nb - 1);
                            bits::flip_bit(&mut g, pos);
                        }
                        3 => {
                            g[1] ^= (1 + rng.below(63) as u8) << 2;
                            crc::fix_crc(&mut g); // reserved bits changed, CRC recomputed: valid
                        }
                        4 => {
                            let n = g.len();
                            g[n - 1] ^= 1 << rng.below(8);
                        }
                        _ => {
                            if g.len() > 6 {
                                let pos = 24 + rng.usize_below((g.len() - 6) * 8);
                                bits::flip_bit(&mut g, pos);
                                crc::fix_crc(&mut g); // different payload, valid
                            }
                        }
                    }
                    s.extend(g);
                    tags |= 2048;
                }
            }
            12 => {
                // a valid frame whose own header / payload bytes look like preambles:
                // byte 1 == 0xD3 (reserved bits 110100, length 768..=1023), and/or low length
                // byte == 0xD3, payload starting with 0xD3 bytes
                let (res, l): (u8, usize) = match rng.below(3) {
                    0 => (0x34, rng.range(768, 1023) as usize),
                    1 => (0x34, *rng.pick(&[979usize, 768, 1023])),
                    _ => (if rng.bool() { 0x34 } else { 0 }, *rng.pick(&[211usize, 467, 723, 979])),
                };
                let mut p = rng.bytes(l);
                let lead = rng.usize_below(4);
                for b in p.iter_mut().take(lead) {
                    *b = 0xD3;
                }
                s.extend(crc::frame_with_reserved(&p, res));
                tags |= 1;
                tags |= 1024;
            }
            0 | 1 | 2 => {
                // valid frame of random payload length (biased small)
                let l = pick_len(rng);
                let p = rng.bytes(l);
                s.extend(crc::frame_with_reserved(&p, if rng.chance(1, 5) { rng.below(64) as u8 } else { 0 }));
                tags |= 1;
            }
            3 => {
                // valid frame of a real message type
                let nums = supported_numbers();
                let n = *rng.pick(nums);
                if let Some(f) = lib_frame(n, rng) {
                    s.extend(f);
                    tags |= 2;
                }
            }
            4 => {
                let g = rng.usize_below(40);
                let mut b = rng.bytes(g);
                if rng.bool() {
                    for x in b.iter_mut() {
                        if *x == 0xD3 {
                            *x = 0;
                        }
                    }
                }
                s.extend(b);
                tags |= 4;
            }
            5 => {
                let g = rng.range(1, 4) as usize;
                s.extend(std::iter::repeat(0xD3).take(g));
                tags |= 8;
            }
            6 => {
                // damaged CRC
                let l = pick_len(rng);
                let p = rng.bytes(l);
                let mut f = crc::frame(&p);
                let pos = rng.usize_below(f.len() * 8 - 8) + 8;
                bits::flip_bit(&mut f, pos);
                s.extend(f);
                tags |= 16;
            }
            7 => {
                // truncated frame
                let l = pick_len(rng);
                let p = rng.bytes(l);
                let f = crc::frame(&p);
                let cut = rng.usize_below(f.len());
                s.extend(&f[..cut]);
                tags |= 32;
            }
            8 => {
                // header announcing a long body, body absent or partly there
                s.push(0xD3);
                s.push((rng.below(64) as u8) << 2 | 3);
                s.push(rng.u8());
                let g = rng.usize_below(30);
                s.extend(rng.bytes(g));
                tags |= 64;
            }
            9 | 10 => {
                // nested: an outer candidate whose payload contains a complete inner frame
                let il = pick_len(rng).min(200);
                let ip = rng.bytes(il);
                let inner = crc::frame(&ip);
                let pre = rng.usize_below(10);
                let post = rng.usize_below(10);
                let mut payload = rng.bytes(pre);
                payload.extend(&inner);
                payload.extend(rng.bytes(post));
                payload.truncate(1023);
                let mut outer = crc::frame(&payload);
                if rng.bool() {
                    // make the outer invalid so that the inner one is the first deliverable
                    let n = outer.len();
                    outer[n - 1] ^= 0x01;
                    tags |= 128;
                } else {
                    tags |= 256;
                }
                s.extend(outer);
            }
            _ => {
                // 0xD3 followed by a valid frame shifted by one (stray preamble before a frame)
                s.push(0xD3);
                let l = pick_len(rng);
                let p = rng.bytes(l);
                s.extend(crc::frame(&p));
                tags |= 512;
            }
        }
        // remember the last complete valid frame appended by this segment, if it is one
        if s.len() >= start + 6 && s[start] == 0xD3 {
            let l = (((s[start + 1] & 3) as usize) << 8) | s[start + 2] as usize;
            if s.len() == start + l + 6 && crc::crc24q(&s[start..start + l + 3]) == ((s[start + l + 3] as u32) << 16 | (s[start + l + 4] as u32) << 8 | s[start + l + 5] as u32) {
                last_frame = Some(s[start..].to_vec());
            }
        }
    }
    s.truncate(max_len);
    (s, tags)
}

/// A long stream (beyond 64 KiB, where 16-bit arithmetic on lengths would wrap): many valid
/// frames with a little garbage in between; total length between 64 KiB and `max_len`.
pub fn long_stream(rng: &mut Rng, max_len: usize) -> Vec<u8> {
    let target = rng.range(65_000, max_len as i64) as usize;
    let mut s: Vec<u8> = Vec::with_capacity(target + 1100);
    while s.len() < target {
        match rng.below(10) {
            0 => {
                let g = rng.usize_below(20);
                s.extend(rng.bytes(g));
            }
            1 => s.push(0xD3),
            _ => {
                let l = pick_len(rng);
                let p = rng.bytes(l);
                s.extend(crc::frame(&p));
            }
        }
    }
    // land the end of the stream near interesting residues of 65536 as well
    if rng.bool() {
        let want = 65_536 * rng.range(1, (max_len / 65_536).max(1) as i64) as usize + rng.usize_below(1100);
        if want <= s.len() {
            s.truncate(want);
        }
    }
    s
}

/// 1007 / 1008 / 1033 frames whose descriptor strings all hold `text` (at most 31 bytes), written by the reference
pub fn descriptor_frame(n: u16, text: &[u8]) -> Vec<u8> {
    let t = &text[..text.len().min(31)];
    let mut b = bits::BitBuf::new();
    b.push(n as u128, 12);
    b.push(0x123, 12);
    let strings = match n {
        1007 => 1,
        1008 => 2,
        _ => 5,
    };
    for k in 0..strings {
        b.push(t.len() as u128, 8);
        for &c in t {
            b.push(c as u128, 8);
        }
        if k == 0 {
            b.push(0x5A, 8); // antenna setup id follows the first string
        }
    }
    crc::frame(&b.into_bytes())
}

/// descriptor texts with the endings and fillers receivers really send
pub const DESCRIPTOR_TEXTS: [&[u8]; 12] = [
    b"TRM59800.00     ",
    b"TRM59800.00     SCIS",
    b"LEIAR25.R4      LEIT",
    b"ABC\0\0\0",
    b"\0",
    b" ",
    b"  ",
    b"X ",
    b" X",
    b"NONE\0",
    b"ASH701945E_M    SNOW\0\0\0\0\0\0\0\0\0\0\0",
    b"\xA4\xFF\xE9 ",
];

/// A long run of dead candidates in front of and between deliverable frames: what a scanner sees when it is pointed
/// at foreign binary data, at a burst of damaged frames or at a line stuck at 0xD3.  The number of rejected candidates
/// in one scanner call is aimed at the places where a counter, a depth or a budget would give out.
pub fn flood_stream(rng: &mut Rng) -> (Vec<u8>, &'static str) {
    const COUNTS: [i64; 21] = [127, 128, 255, 256, 257, 1023, 1024, 1025, 4095, 4096, 4097, 8191, 8192, 8193, 16383, 16384, 32767, 32768, 65535, 65536, 65537];
    let n = match rng.below(3) {
        0 => *rng.pick(&COUNTS),
        1 => (*rng.pick(&COUNTS) + rng.range(-3, 3)).max(1),
        _ => rng.range(200, 70_000),
    } as usize;
    let mut s: Vec<u8> = Vec::new();
    if rng.bool() {
        let l = pick_len(rng);
        let p = rng.bytes(l);
        s.extend(crc::frame(&p));
    }
    let kind = match rng.below(4) {
        0 => {
            // every byte a candidate announcing 979 bytes; complete while enough bytes follow
            s.extend(std::iter::repeat(0xD3u8).take(n.min(24_000)));
            "flood_of_preamble_bytes"
        }
        1 => {
            for _ in 0..n {
                let l = rng.usize_below(3);
                let p = rng.bytes(l);
                let mut f = crc::frame(&p);
                let k = f.len() - 1 - rng.usize_below(3);
                f[k] ^= 1 << rng.below(8);
                s.extend(f);
            }
            "flood_of_tiny_damaged_frames"
        }
        2 => {
            let p = rng.bytes(19);
            let f = crc::frame(&p);
            for _ in 0..n.min(20_000) {
                let mut g = f.clone();
                let b = 24 + rng.usize_below(g.len() * 8 - 24);
                g[b / 8] ^= 0x80 >> (b % 8);
                s.extend(g);
            }
            "flood_of_damaged_copies_of_one_frame"
        }
        _ => {
            for _ in 0..n {
                s.extend_from_slice(&[0xD3, 0x00, 0x00, 0xFF, rng.below(256) as u8, 0x01]);
            }
            "flood_of_empty_frames_with_wrong_checksum"
        }
    };
    for _ in 0..rng.range(1, 3) {
        let l = pick_len(rng);
        let p = rng.bytes(l);
        s.extend(crc::frame(&p));
    }
    if rng.bool() {
        s.extend(std::iter::repeat(0xD3u8).take(rng.usize_below(300)));
        let l = pick_len(rng);
        let p = rng.bytes(l);
        s.extend(crc::frame(&p));
    }
    if rng.chance(1, 3) {
        let p = rng.bytes(40);
        let f = crc::frame(&p);
        let cut = rng.range(1, f.len() as i64 - 1) as usize;
        s.extend_from_slice(&f[..cut]);
    }
    (s, kind)
}

fn pick_len(rng: &mut Rng) -> usize {
    match rng.below(10) {
        0 => 0,
        1 => 1,
        2 => 2,
        3 => 1023,
        4 => rng.range(900, 1023) as usize,
        5 | 6 => rng.range(0, 300) as usize,
        _ => rng.range(0, 40) as usize,
    }
}

pub const STREAM_TAGS: [&str; 16] = [
    "valid_random_frame",
    "valid_typed_frame",
    "garbage",
    "lone_preamble_bytes",
    "damaged_crc_frame",
    "truncated_frame",
    "long_header_without_body",
    "nested_in_invalid_outer",
    "nested_in_valid_outer",
    "stray_preamble_before_frame",
    "frame_with_preamble_lookalike_header",
    "previous_frame_repeated_with_variation",
    "frame_with_zero_checksum_or_zero_register",
    "line_ends_and_foreign_protocol_bytes_between_frames",
    "bytes_one_bit_away_from_the_preamble",
    "frame_inside_another_protocols_checksummed_frame",
];
