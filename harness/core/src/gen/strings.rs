//! Hostile string pool and random Unicode text.

use crate::rng::Rng;

/// characters with a history of special treatment in text handling code
pub const NAUGHTY: &[char] = &[
    '\u{feff}', '\u{fffe}', '\u{fffd}', '\u{ffff}', '\u{200b}', '\u{200e}', '\u{202e}', '\u{2028}', '\u{2029}', '\u{85}', '\u{a0}', '\u{ad}',
    '\u{a4}', '"', '\\', '\'', '\n', '\r', '\t', '\u{7f}', '\u{1b}', '\u{8}', '%', '{', '}', '$', '/', '<', '&', ' ', '\u{0}', '\u{1}', '\u{d7ff}', '\u{e000}',
    '\u{10000}', '\u{10ffff}', '\u{ff21}', '\u{130}', '\u{131}', '\u{df}', '\u{1e9e}',
];

/// ordinary text with one naughty character first, last or in the middle
pub fn naughty_string(rng: &mut Rng) -> String {
    let n = rng.range(0, 20) as usize;
    let body: String = (0..n).map(|_| rng.range(0x41, 0x7A) as u8 as char).collect();
    let c = *rng.pick(NAUGHTY);
    match rng.below(4) {
        0 | 1 => format!("{}{}", c, body),
        2 => format!("{}{}", body, c),
        _ => {
            let k = rng.usize_below(body.len() + 1);
            format!("{}{}{}", &body[..k], c, &body[k..])
        }
    }
}

fn rand_char(rng: &mut Rng) -> char {
    if rng.chance(1, 16) {
        return *rng.pick(NAUGHTY);
    }
    loop {
        let c = match rng.below(12) {
            0 => 0,                                    // NUL
            1 => rng.range(1, 0x7F) as u32,            // ASCII
            2 => rng.range(0x80, 0xFF) as u32,         // Latin-1 high half
            3 => 0xA4,                                 // the replacement byte itself
            4 => rng.range(0x100, 0x7FF) as u32,       // 2-byte
            5 => rng.range(0x800, 0xFFFF) as u32,      // 3-byte
            6 => rng.range(0x10000, 0x10FFFF) as u32,  // astral
            7 => *rng.pick(&[0xFFu32, 0x100, 0x7F, 0x80, 0x7FF, 0x800, 0xFFFF, 0x10000, 0x10FFFF, 0xD7FF, 0xE000]),
            _ => rng.range(0x20, 0x7E) as u32,
        };
        if let Some(ch) = char::from_u32(c) {
            return ch;
        }
    }
}

/// random string with a character count drawn around the interesting capacities
pub fn random_string(rng: &mut Rng) -> String {
    let n = match rng.below(12) {
        0 => 0,
        1 => rng.range(1, 6) as usize,
        2 => rng.range(6, 9) as usize,
        3 => rng.range(29, 33) as usize,
        4 => rng.range(60, 70) as usize,
        5 => rng.range(125, 130) as usize,
        6 => rng.range(250, 260) as usize,
        7 => rng.range(0, 300) as usize,
        _ => rng.range(0, 40) as usize,
    };
    let mode = rng.below(6);
    let mut s = String::new();
    for _ in 0..n {
        let ch = match mode {
            0 => rng.range(0x20, 0x7E) as u8 as char,
            1 => char::from_u32(rng.range(0x80, 0xFF) as u32).unwrap(),
            2 => char::from_u32(rng.range(0x4E00, 0x4EFF) as u32).unwrap(),
            3 => char::from_u32(rng.range(0x1F600, 0x1F64F) as u32).unwrap(),
            _ => rand_char(rng),
        };
        s.push(ch);
    }
    s
}

/// text aimed at a byte capacity: fill to cap-k bytes with 1-byte chars, then a multi-byte
/// character that straddles / exactly fits / just misses the capacity
pub fn straddle_string(rng: &mut Rng, cap: usize) -> String {
    if rng.chance(1, 4) {
        // two characters that software likes to treat as a unit, the first one the last that fits: CR LF, a base
        // letter and a combining mark, a surrogate-like pair of astral characters, a backslash escape, "%0A"
        let pairs: [(&str, &str); 7] = [("\r", "\n"), ("e", "\u{301}"), ("\\", "n"), ("%", "0A"), ("\u{1F1E9}", "\u{1F1EA}"), ("\n", "\r"), ("\u{200d}", "\u{1F600}")];
        let (a, b) = *rng.pick(&pairs);
        let lead = cap.saturating_sub(a.len());
        let mut s: String = std::iter::repeat('a').take(lead).collect();
        s.push_str(a);
        s.push_str(b);
        for _ in 0..rng.usize_below(4) {
            s.push(rand_char(rng));
        }
        return s;
    }
    let wide = *rng.pick(&['\u{00e9}', '\u{20ac}', '\u{1F600}', '\u{07FF}', '\u{0800}']);
    let w = wide.len_utf8();
    let k = rng.range(0, (w + 1) as i64) as usize; // bytes left before the wide char
    let lead = cap.saturating_sub(k);
    let mut s: String = std::iter::repeat('a').take(lead).collect();
    s.push(wide);
    let tail = rng.usize_below(4);
    for _ in 0..tail {
        s.push(rand_char(rng));
    }
    s
}

pub fn pool() -> Vec<String> {
    let mut v: Vec<String> = vec![
        "".into(),
        "\0".into(),
        "a\0b".into(),
        "\u{a4}".into(),
        "\u{ff}".into(),
        "\u{100}".into(),
        "\u{7f}\u{80}".into(),
        "ABCDEFG".into(),
        "ABCDEFGH".into(),
        "TRM59800.00     SCIS".into(),
        "\u{e9}\u{e8}\u{fc}\u{f6}\u{df}".into(),
        "\u{20ac}uro".into(),
        "\u{1F600}".into(),
        "日本語のテキスト".into(),
    ];
    for c in NAUGHTY {
        v.push(format!("{}Station moved", c));
        v.push(format!("ABC{}", c));
        v.push(c.to_string());
    }
    for n in [6usize, 7, 8, 30, 31, 32, 126, 127, 128, 254, 255, 256] {
        v.push(std::iter::repeat('x').take(n).collect());
        v.push(std::iter::repeat('\u{e9}').take(n).collect());
        v.push(std::iter::repeat('\u{ff}').take(n).collect());
        v.push(std::iter::repeat('\u{20ac}').take(n / 3 + 1).collect());
        v.push(std::iter::repeat('\u{1F600}').take(n / 4 + 1).collect());
        v.push(std::iter::repeat('\0').take(n).collect());
    }
    v
}

/// "double-encoded" text: the UTF-8 bytes of a non-ASCII string read as Latin-1 characters.
/// The Latin-1 byte image of such a string is itself well-formed UTF-8.
pub fn mojibake(rng: &mut Rng) -> String {
    let n = rng.range(1, 12) as usize;
    let mut s = String::new();
    for _ in 0..n {
        match rng.below(4) {
            0 => s.push(char::from_u32(rng.range(0xA0, 0x7FF) as u32).unwrap_or('x')),
            1 => s.push(*rng.pick(&['\u{b0}', '\u{f6}', '\u{e9}', '\u{fc}', '\u{20ac}'])),
            _ => s.push(rng.range(0x20, 0x7E) as u8 as char),
        }
    }
    if s.is_ascii() {
        s.push('\u{b0}');
    }
    s.bytes().map(|b| char::from_u32(b as u32).unwrap()).collect()
}

pub fn hostile_string(rng: &mut Rng) -> String {
    if rng.chance(1, 12) {
        return mojibake(rng);
    }
    if rng.chance(1, 8) {
        return naughty_string(rng);
    }
    match rng.below(8) {
        0 | 1 => {
            let p = pool();
            rng.pick(&p).clone()
        }
        2 => {
            let cap = *rng_pick_cap(rng);
            straddle_string(rng, cap)
        }
        _ => random_string(rng),
    }
}

fn rng_pick_cap(rng: &mut Rng) -> &'static usize {
    const CAPS: [usize; 4] = [7, 31, 127, 255];
    &CAPS[rng.usize_below(4)]
}

/// valid UTF-8 text of at most max_bytes bytes
pub fn random_text(rng: &mut Rng, max_bytes: usize) -> String {
    let mut s = hostile_string(rng);
    while s.len() > max_bytes {
        s.pop();
    }
    s
}

/// byte strings that are not valid UTF-8
pub fn invalid_utf8(rng: &mut Rng) -> Vec<u8> {
    let mut v: Vec<u8> = random_text(rng, 200).into_bytes();
    let bad: &[&[u8]] = &[
        &[0x80],
        &[0xC0, 0xAF],
        &[0xC3],
        &[0xE2, 0x82],
        &[0xED, 0xA0, 0x80],
        &[0xF0, 0x9F, 0x98],
        &[0xF5, 0x80, 0x80, 0x80],
        &[0xFF],
        &[0xFE, 0xFF],
        &[0xF4, 0x90, 0x80, 0x80],
    ];
    let b = *rng.pick(bad);
    if rng.chance(1, 4) {
        // a multi-byte character cut short at the very end of the text
        let cut: &[&[u8]] = &[&[0xC3], &[0xE2, 0x82], &[0xE2], &[0xF0, 0x9F, 0x98], &[0xF0, 0x9F], &[0xF0], &[0xDF]];
        let c = *rng.pick(cut);
        // total length: exactly the byte capacity (255) half of the time, else anything
        let total = if rng.bool() { 255 } else { rng.range(c.len() as i64, 255) as usize };
        let want = total - c.len();
        // valid prefix of exactly `want` bytes: whole characters, padded with ASCII
        let mut pre = String::new();
        for ch in random_text(rng, 255).chars().chain(std::iter::repeat('\u{20ac}').take(90)) {
            if pre.len() + ch.len_utf8() > want {
                break;
            }
            pre.push(ch);
        }
        while pre.len() < want {
            pre.push('a');
        }
        let mut v = pre.into_bytes();
        v.extend_from_slice(c);
        return v;
    }
    let pos = if v.is_empty() { 0 } else { rng.usize_below(v.len() + 1) };
    // insert on a character boundary so that only the inserted bytes are wrong
    let mut p = pos;
    while p < v.len() && (v[p] & 0xC0) == 0x80 {
        p += 1;
    }
    for (i, x) in b.iter().enumerate() {
        v.insert(p + i, *x);
    }
    v.truncate(255);
    if std::str::from_utf8(&v).is_ok() {
        // truncation may have removed the damage; force one bad byte
        if v.is_empty() {
            v.push(0xFF);
        } else {
            let n = v.len();
            v[n - 1] = 0xFF;
        }
    }
    v
}
