//! C16: SSR code-bias (1059, 1065) and GLONASS code-phase bias (1230) lists keep every
//! entry or report an error.

use crate::io::{build, decode};
use crate::framing::msg_class;
use crate::gen;
use crate::mon::{hex_short, Ctx};
use crate::oracle::sig::{SSR_GLO, SSR_GPS};
use crate::par;
use crate::rng::{mix, Rng};
use crate::{Outcome, Params};
use rtcm_rs::msg::*;
use rtcm_rs::prelude::*;
use serde_json::{json, Value};

type Entry = (u8, u8, char, i32); // satellite, band, attribute, k

fn make(number: u16, entries: &[Entry]) -> Message {
    match number {
        1059 => {
            let mut t = Msg1059T::default();
            t.gps_epoch_time_s = 1234;
            for e in entries {
                t.biases.push(Msg1059CodeBias { satellite_id: e.0, signal_id: GpsSigId::new(e.1, e.2), bias_m: e.3 as f32 * 0.01 });
            }
            Message::Msg1059(t)
        }
        1065 => {
            let mut t = Msg1065T::default();
            for e in entries {
                t.biases.push(Msg1065CodeBias { satellite_id: e.0, signal_id: GloSigId::new(e.1, e.2), bias_m: e.3 as f32 * 0.01 });
            }
            Message::Msg1065(t)
        }
        _ => {
            let mut t = Msg1230T::default();
            for e in entries {
                t.glo_code_phase_biases.push(Msg1230CodePhaseBias { signal_id: GloSigId::new(e.1, e.2), bias_m: e.3 as f32 * 0.02 });
            }
            Message::Msg1230(t)
        }
    }
}

/// decoded entries as (sat, band, attr, bias bits)
fn entries_of(m: &Message) -> Option<Vec<(u8, u8, char, u32)>> {
    match m {
        Message::Msg1059(t) => Some(t.biases.iter().map(|b| (b.satellite_id, b.signal_id.band(), b.signal_id.attribute(), b.bias_m.to_bits())).collect()),
        Message::Msg1065(t) => Some(t.biases.iter().map(|b| (b.satellite_id, b.signal_id.band(), b.signal_id.attribute(), b.bias_m.to_bits())).collect()),
        Message::Msg1230(t) => Some(t.glo_code_phase_biases.iter().map(|b| (0, b.signal_id.band(), b.signal_id.attribute(), b.bias_m.to_bits())).collect()),
        _ => None,
    }
}

fn check(ctx: &mut Ctx, number: u16, entries: &[Entry], class: &'static str) {
    ctx.eval();
    ctx.count(class);
    let m = make(number, entries);
    let rp = || json!({"kind":"bias_list","number":number,"entries":entries.iter().map(|e| json!([e.0, e.1, e.2 as u32, e.3])).collect::<Vec<_>>()});
    let mut h = number as u64;
    for e in entries {
        h = mix(h, (e.0 as u64) << 40 | (e.1 as u64) << 32 | (e.2 as u64) << 16 | (e.3 as u16 as u64));
    }
    ctx.nontrivial(h);
    let nsat = {
        let mut s: Vec<u8> = entries.iter().map(|e| e.0).collect();
        s.sort();
        s.dedup();
        s.len()
    };
    ctx.count_dyn(format!("satellites_in_list:{:02}", (nsat / 8) * 8));
    let f = match build(&m) {
        Err(_) => {
            ctx.count("encode_panics_left_to_C09");
            return;
        }
        Ok(Err(e)) => {
            ctx.count_dyn(format!("refused:{}", e));
            return; // an error is an admissible outcome
        }
        Ok(Ok(f)) => f,
    };
    ctx.count("encoded");
    let d = match decode(&f) {
        Ok(Some(d)) => d,
        _ => {
            ctx.count("decode_panics_left_to_C02");
            return;
        }
    };
    let got = match entries_of(&d) {
        Some(g) => g,
        None => {
            ctx.violation(format!("C16.decodes|{}", number), "C16.decodes", format!("msg {} with {} entries on {} satellites encodes to a frame that decodes to {}; frame={}", number, entries.len(), nsat, msg_class(&d), hex_short(&f)), rp());
            return;
        }
    };
    let scale = if number == 1230 { 0.02f32 } else { 0.01 };
    let mut exp: Vec<(u8, u8, char, u32)> = entries.iter().map(|e| (if number == 1230 { 0 } else { e.0 }, e.1, e.2, (e.3 as f32 * scale).to_bits())).collect();
    let mut g2 = got.clone();
    exp.sort();
    g2.sort();
    if exp != g2 {
        let what = if g2.len() < exp.len() {
            "entries_lost"
        } else if g2.len() > exp.len() {
            "entries_added"
        } else {
            "entries_changed"
        };
        ctx.violation(
            format!("C16.same_multiset|{}|{}", number, what),
            "C16.same_multiset",
            format!("msg {}: {} entries on {} satellites were encoded, {} entries decoded ({}); frame={}", number, exp.len(), nsat, g2.len(), what, hex_short(&f)),
            rp(),
        );
        return;
    }
    // grouped by ascending satellite
    if number != 1230 && got.windows(2).any(|w| w[0].0 > w[1].0) {
        ctx.violation(format!("C16.grouped_ascending|{}", number), "C16.grouped_ascending", format!("msg {}: decoded satellites are not in ascending groups: {:?}", number, got.iter().map(|e| e.0).collect::<Vec<_>>()), rp());
    }
    if number == 1230 {
        let order: Vec<(u8, char)> = got.iter().map(|e| (e.1, e.2)).collect();
        let mut sorted = order.clone();
        sorted.sort_by_key(|d| SSR_GLO.iter().position(|s| s.1 == d.0 && s.2 == d.1));
        if order != sorted {
            ctx.violation("C16.fixed_order|1230".into(), "C16.fixed_order", format!("1230: decoded signal order {:?}", order), rp());
        }
    }
    if ctx.want_sample() && ctx.evaluations % 389 == 1 {
        ctx.sample(|| json!({"number": number, "class": class, "entries": entries.len(), "satellites": nsat, "frame_bytes": f.len(), "first_entries": entries.iter().take(4).map(|e| format!("sat{} {}{} k={}", e.0, e.1, e.2, e.3)).collect::<Vec<_>>()}));
    }
}

fn random_list(rng: &mut Rng, number: u16) -> (Vec<Entry>, &'static str) {
    let (nsat_max, table): (usize, &[(u8, u8, char)]) = if number == 1059 { (64, &SSR_GPS) } else { (32, &SSR_GLO) };
    let mut sats: Vec<u8> = (0..nsat_max as u8).collect();
    rng.shuffle(&mut sats);
    let (ns, class): (usize, &'static str) = match rng.below(8) {
        0 => (nsat_max, "all_satellite_ids"),
        1 => (nsat_max - 1, "all_but_one_satellite_ids"),
        2 => (0, "empty_list"),
        3 => (1, "one_satellite"),
        _ => (rng.range(1, nsat_max as i64) as usize, "random_satellite_count"),
    };
    let sats = &sats[..ns];
    let mut entries: Vec<Entry> = Vec::new();
    let full = rng.chance(1, 3);
    for &s in sats {
        let mut sigs: Vec<usize> = (0..table.len()).collect();
        rng.shuffle(&mut sigs);
        let k = if full { table.len() } else { rng.range(1, table.len() as i64) as usize };
        for &si in &sigs[..k] {
            let kk = match rng.below(6) {
                0 => -8192,
                1 => 8191,
                2 => 0,
                3 => -1,
                _ => rng.range(-8192, 8191) as i32,
            };
            entries.push((s, table[si].1, table[si].2, kk));
        }
    }
    // scatter: entries of one satellite spread through the list
    match rng.below(6) {
        0 => rng.shuffle(&mut entries),
        1 => entries.reverse(),
        2 if entries.len() > 1 => {
            // grouped order with one adjacent transposition
            entries.sort_by_key(|e| e.0);
            let a = rng.usize_below(entries.len() - 1);
            entries.swap(a, a + 1);
        }
        3 if entries.len() > 2 => {
            // grouped order with one entry moved elsewhere
            entries.sort_by_key(|e| e.0);
            let a = rng.usize_below(entries.len());
            let e = entries.remove(a);
            let b = rng.usize_below(entries.len() + 1);
            entries.insert(b, e);
        }
        4 => entries.sort_by_key(|e| (e.1, e.2 as u32, e.0)),
        _ => {}
    }
    entries.truncate(390);
    (entries, class)
}

/// lists written pass by pass over ascending satellites (signal-major order): every run of
/// equal satellite ids has length one; totals are aimed at 8-bit wrap points of
/// (entries, runs, runs - satellites)
fn round_robin_list(rng: &mut Rng, number: u16) -> (Vec<Entry>, &'static str) {
    let (nsat_max, table): (usize, &[(u8, u8, char)]) = if number == 1059 { (64, &SSR_GPS) } else { (32, &SSR_GLO) };
    let tl = table.len();
    let s_lo = 2usize;
    let ns = rng.range(s_lo as i64, nsat_max as i64) as usize;
    let max_e = (ns * tl).min(390);
    let want: usize = match rng.below(6) {
        0 => ns + 256,
        1 => ns + 255,
        2 => ns + 257,
        3 => *rng.pick(&[255usize, 256, 257, 288, 300, 384, 389, 390]),
        _ => rng.range(ns as i64, max_e as i64) as usize,
    };
    let e = want.clamp(ns, max_e);
    let mut all: Vec<u8> = (0..nsat_max as u8).collect();
    rng.shuffle(&mut all);
    let mut sats: Vec<u8> = all[..ns].to_vec();
    sats.sort();
    // per-satellite counts: start at 1, add until the total is e
    let mut cnt = vec![1usize; ns];
    let mut total = ns;
    let mut guard_i = 0;
    while total < e && guard_i < 100_000 {
        let i = rng.usize_below(ns);
        if cnt[i] < tl {
            cnt[i] += 1;
            total += 1;
        }
        guard_i += 1;
    }
    let mut sigs: Vec<Vec<usize>> = (0..ns)
        .map(|_| {
            let mut v: Vec<usize> = (0..tl).collect();
            rng.shuffle(&mut v);
            v
        })
        .collect();
    let descending = rng.chance(1, 4);
    let mut entries: Vec<Entry> = Vec::new();
    for pass in 0..tl {
        let order: Vec<usize> = if descending { (0..ns).rev().collect() } else { (0..ns).collect() };
        for i in order {
            if pass < cnt[i] {
                let si = sigs[i][pass];
                entries.push((sats[i], table[si].1, table[si].2, rng.range(-8192, 8191) as i32));
            }
        }
    }
    let _ = &mut sigs;
    (entries, "round_robin_over_satellites")
}

/// complete rounds over all satellites (every satellite once per round, ascending), with one entry of a later round
/// handed to a neighbouring satellite: that round is still ascending, but no longer a copy of the first one
fn rounds_with_one_substitution(rng: &mut Rng, number: u16) -> (Vec<Entry>, &'static str) {
    let (nsat_max, table): (usize, &[(u8, u8, char)]) = if number == 1059 { (64, &SSR_GPS) } else { (32, &SSR_GLO) };
    let tl = table.len();
    let k = rng.range(2, tl as i64 - 1) as usize; // rounds; one signal per satellite is kept in reserve
    let ns = (rng.range(3, nsat_max as i64) as usize).min(390 / k);
    let mut all: Vec<u8> = (0..nsat_max as u8).collect();
    rng.shuffle(&mut all);
    let mut sats: Vec<u8> = all[..ns].to_vec();
    sats.sort();
    let sigs: Vec<Vec<usize>> = (0..ns)
        .map(|_| {
            let mut v: Vec<usize> = (0..tl).collect();
            rng.shuffle(&mut v);
            v
        })
        .collect();
    let mut entries: Vec<Entry> = Vec::new();
    for pass in 0..k {
        for i in 0..ns {
            let si = sigs[i][pass];
            entries.push((sats[i], table[si].1, table[si].2, rng.range(-8192, 8191) as i32));
        }
    }
    let subs = if rng.chance(1, 4) { 2 } else { 1 };
    for _ in 0..subs {
        let r = rng.range(1, k as i64 - 1) as usize;
        let j = rng.usize_below(ns);
        let nb = if j == 0 { 1 } else if j == ns - 1 || rng.bool() { j - 1 } else { j + 1 };
        let si = sigs[nb][k]; // a signal the neighbour has not used
        // (satellite, signal) pairs stay distinct and the list keeps its length
        if !entries.iter().any(|e| e.0 == sats[nb] && e.1 == table[si].1 && e.2 == table[si].2) {
            let bias = entries[r * ns + j].3;
            entries[r * ns + j] = (sats[nb], table[si].1, table[si].2, bias);
        }
    }
    (entries, "rounds_over_all_satellites_with_a_substitution")
}

fn hostile_frames(ctx: &mut Ctx, rng: &mut Rng, number: u16, n: usize) {
    for _ in 0..n {
        ctx.eval();
        let (f, _h) = gen::wire_frame(rng, number);
        match decode(&f) {
            Ok(Some(m)) => {
                ctx.count("hostile_frames_decoded");
                if let Some(e) = entries_of(&m) {
                    let cap = if number == 1230 { 4 } else { 390 };
                    ctx.max(&format!("max_decoded_entries_{}", number), e.len() as f64);
                    if e.len() > cap {
                        ctx.violation(format!("C16.capacity|{}", number), "C16.capacity", format!("msg {}: {} entries decoded, capacity {}", number, e.len(), cap), json!({"kind":"frame","hex":crate::mon::hex(&f)}));
                    }
                }
            }
            Ok(None) => {}
            Err(_) => ctx.count("decode_panics_left_to_C02"),
        }
    }
}

pub fn run(p: &Params) -> Outcome {
    let seed = p.seed;
    let n = p.size(600_000, 20_000_000);
    let per = n / p.workers as u64;
    let mut total = par::run(p.workers, move |w, _nw, ctx| {
        let mut rng = Rng::derive(seed, "C16", w as u64);
        if w == 0 {
            // 1230: all 16 signal subsets x all orders (exhaustive)
            for mask in 0u32..16 {
                let sigs: Vec<usize> = (0..4).filter(|i| mask >> i & 1 == 1).collect();
                let mut perm = sigs.clone();
                // all permutations by Heap's algorithm (<= 24)
                fn heap(k: usize, a: &mut Vec<usize>, out: &mut Vec<Vec<usize>>) {
                    if k <= 1 {
                        out.push(a.clone());
                        return;
                    }
                    for i in 0..k {
                        heap(k - 1, a, out);
                        if k % 2 == 0 {
                            a.swap(i, k - 1);
                        } else {
                            a.swap(0, k - 1);
                        }
                    }
                }
                let mut perms: Vec<Vec<usize>> = Vec::new();
                heap(perm.len(), &mut perm, &mut perms);
                for pm in perms {
                    for _ in 0..8 {
                        let entries: Vec<Entry> = pm.iter().map(|&i| (0, SSR_GLO[i].1, SSR_GLO[i].2, rng.range(-32768, 32767) as i32)).collect();
                        check(ctx, 1230, &entries, "1230_subset_and_order");
                    }
                }
            }
            ctx.exhaustive_parts.push("1230: all 16 signal subsets x all orders".into());
            // every satellite count 0..=64 (1059) and 0..=32 (1065), one bias each
            for ns in 0..=64u8 {
                let e: Vec<Entry> = (0..ns.min(64)).map(|s| (s, 1, 'C', s as i32 - 20)).collect();
                check(ctx, 1059, &e, "1059_each_satellite_count");
                if ns <= 32 {
                    let e: Vec<Entry> = (0..ns.min(32)).map(|s| (s, 1, 'C', s as i32 - 20)).collect();
                    check(ctx, 1065, &e, "1065_each_satellite_count");
                }
            }
        }
        for i in 0..per {
            if ctx.saturated() {
                ctx.count("stopped_early_after_20000_violations");
                break;
            }
            let number = if i % 2 == 0 { 1059 } else { 1065 };
            let (mut e, mut class) = if i % 6 == 5 {
                rounds_with_one_substitution(&mut rng, number)
            } else if i % 3 == 2 {
                round_robin_list(&mut rng, number)
            } else {
                random_list(&mut rng, number)
            };
            if i % 11 == 5 && !e.is_empty() {
                // one satellite replaced by an id outside the wire range (first run, last run or
                // anywhere): the only admissible outcomes are an error or the exact multiset
                let lim: i64 = if number == 1059 { 64 } else { 32 };
                let any = rng.range(lim, 255) as u8;
                let bad = *rng.pick(&[lim as u8, (lim + 1) as u8, 127, 128, 254, 255, any]);
                let victim = match rng.below(3) {
                    0 => e[0].0,
                    1 => e[e.len() - 1].0,
                    _ => e[rng.usize_below(e.len())].0,
                };
                if rng.bool() {
                    for x in e.iter_mut() {
                        if x.0 == victim {
                            x.0 = bad;
                        }
                    }
                } else if e.len() < 390 {
                    // an additional entry with the bad id (all valid slots may already be
                    // present): at the end, at the front or anywhere
                    let tmpl = e[rng.usize_below(e.len())];
                    let at = match rng.below(3) {
                        0 => e.len(),
                        1 => 0,
                        _ => rng.usize_below(e.len() + 1),
                    };
                    e.insert(at, (bad, tmpl.1, tmpl.2, tmpl.3));
                }
                class = "one_satellite_id_out_of_range";
            }
            check(ctx, number, &e, class);
            if i % 4 == 0 {
                hostile_frames(ctx, &mut rng, [1059u16, 1065, 1230][(i / 4 % 3) as usize], 2);
            }
            if i % 16 == 0 {
                let k = rng.range(0, 4) as usize;
                let mut idx: Vec<usize> = (0..4).collect();
                rng.shuffle(&mut idx);
                let entries: Vec<Entry> = idx[..k].iter().map(|&j| (0, SSR_GLO[j].1, SSR_GLO[j].2, rng.range(-32768, 32767) as i32)).collect();
                check(ctx, 1230, &entries, "1230_random");
            }
        }
    });
    for k in ["all_satellite_ids", "encoded", "hostile_frames_decoded", "1230_subset_and_order"] {
        if total.get(k) == 0 {
            total.inconclusive(format!("{} never observed", k));
        }
    }
    Outcome {
        ctx: total,
        rule: "typed 1059/1065/1230 messages whose entries carry distinct recognised (satellite, signal) keys and on-grid biases: every satellite count incl. all ids, full per-satellite signal sets, scattered order, up to the 390-entry capacity; oracle: Err, or the frame decodes to exactly the same multiset (bias bit patterns compared) grouped by ascending satellite (1230: fixed signal order); hostile reference-built frames: decoded length <= capacity; distinct by list hash".into(),
        exhaustive: false,
        extra: json!({}),
    }
}

pub fn replay(_p: &Params, v: &Value) -> Outcome {
    let mut ctx = Ctx::new(0);
    match v["kind"].as_str().unwrap_or("") {
        "bias_list" => {
            let number = v["number"].as_u64().unwrap_or(1059) as u16;
            let entries: Vec<Entry> = v["entries"].as_array().map(|a| a.iter().map(|e| (e[0].as_u64().unwrap_or(0) as u8, e[1].as_u64().unwrap_or(1) as u8, char::from_u32(e[2].as_u64().unwrap_or(67) as u32).unwrap_or('C'), e[3].as_i64().unwrap_or(0) as i32)).collect()).unwrap_or_default();
            check(&mut ctx, number, &entries, "replay");
        }
        k => ctx.inconclusive(format!("unknown replay kind {}", k)),
    }
    Outcome { ctx, rule: "replay".into(), exhaustive: false, extra: json!({}) }
}
