//! Monitors for the framing layer: C03 (acceptance predicate), C04 (corrupted frames),
//! C05 (scanner), C06 (chunk-split independence), C13 (suffix independence).

use crate::gen;
use crate::mon::{guard, hex, hex_short, unhex, Ctx};
use crate::oracle::bits;
use crate::oracle::crc;
use crate::oracle::frame::{classify, scan, scan_all, Class};
use crate::par;
use crate::rng::{hash_bytes, mix, Rng};
use crate::{Outcome, Params};
use rtcm_rs::prelude::*;
use serde_json::{json, Value};

// ------------------------------------------------------------------------------------
// C03
// ------------------------------------------------------------------------------------

#[derive(Debug, PartialEq, Eq, Clone, Copy)]
enum Got {
    Accept { frame_len: usize, data_len: usize, data_ok: bool, frame_ok: bool, crc: u32 },
    Incomplete,
    NotValid,
    Other,
}

fn observe_new(s: &[u8]) -> Result<Got, crate::mon::PanicEv> {
    guard(|| match MessageFrame::new(s) {
        Ok(f) => {
            let fl = f.frame_len();
            let dl = f.data_len();
            let data_ok = fl >= 6 && fl <= s.len() && dl + 6 == fl && f.data() == &s[3..3 + dl];
            let frame_ok = fl <= s.len() && f.frame_data() == &s[..fl];
            Got::Accept { frame_len: fl, data_len: dl, data_ok, frame_ok, crc: f.crc() }
        }
        Err(RtcmError::Incomplete) => Got::Incomplete,
        Err(RtcmError::NotValid) => Got::NotValid,
        Err(_) => Got::Other,
    })
}

fn c03_check(ctx: &mut Ctx, s: &[u8], origin: &'static str) {
    ctx.eval();
    ctx.count(origin);
    let exp = classify(s);
    let got = match observe_new(s) {
        Ok(g) => g,
        Err(p) => {
            ctx.panic_violation("C03.no_panic", &p, "MessageFrame::new", json!({"kind":"slice","hex":hex(s)}));
            return;
        }
    };
    if s.len() >= 6 && s[0] == 0xD3 {
        ctx.nontrivial(hash_bytes(s));
    }
    let ok = match (exp, got) {
        (Class::Accept(l), Got::Accept { frame_len, data_len, data_ok, frame_ok, crc }) => {
            ctx.count("outcome_accept");
            let tail = ((s[l + 3] as u32) << 16) | ((s[l + 4] as u32) << 8) | s[l + 5] as u32;
            frame_len == l + 6 && data_len == l && data_ok && frame_ok && crc == tail && crc == crc::crc24q(&s[..l + 3])
        }
        (Class::Incomplete, Got::Incomplete) => {
            ctx.count("outcome_incomplete");
            true
        }
        (Class::NotValid, Got::NotValid) => {
            ctx.count("outcome_not_valid");
            true
        }
        (Class::RejectEither, Got::Incomplete) | (Class::RejectEither, Got::NotValid) => {
            ctx.count("outcome_short_non_preamble_rejected");
            true
        }
        _ => false,
    };
    if !ok {
        let sig = format!("C03.predicate|exp={}|got={}", class_name(exp), got_name(got));
        ctx.violation(
            sig,
            "C03.predicate",
            format!("origin={} expected {:?}, library gave {:?}; slice={}", origin, exp, got, hex_short(s)),
            json!({"kind":"slice","hex":hex(s)}),
        );
    }
    if ctx.want_sample() && ctx.evaluations % 997 == 1 {
        ctx.sample(|| json!({"origin": origin, "slice": hex_short(s), "reference": format!("{:?}", exp), "library": format!("{:?}", got)}));
    }
}

fn class_name(c: Class) -> &'static str {
    match c {
        Class::Accept(_) => "accept",
        Class::Incomplete => "incomplete",
        Class::NotValid => "not_valid",
        Class::RejectEither => "reject",
    }
}
fn got_name(g: Got) -> &'static str {
    match g {
        Got::Accept { .. } => "accept",
        Got::Incomplete => "incomplete",
        Got::NotValid => "not_valid",
        Got::Other => "other_error",
    }
}

fn payload_kind(rng: &mut Rng, l: usize, kind: usize) -> Vec<u8> {
    match kind {
        0 => vec![0u8; l],
        1 => vec![0xFFu8; l],
        _ => rng.bytes(l),
    }
}

pub fn c03(p: &Params) -> Outcome {
    let seed = p.seed;
    let thorough = p.thorough;
    let n_random = p.size(10_000_000, 1_000_000_000);
    let workers = p.workers;
    // part 1: every L in 0..=1023 (work queue), near-miss families per frame
    let mut total = par::run_queue(workers, 1024, move |l, ctx| {
        let mut rng = Rng::derive(seed, "C03.len", l as u64);
        let kinds = if thorough { 6 } else { 3 };
        for kind in 0..kinds {
            let payload = payload_kind(&mut rng, l, kind);
            let f = crc::frame(&payload);
            c03_check(ctx, &f, "valid_frame");
            // with a suffix the frame is still accepted with the same L
            let mut g = f.clone();
            g.extend(rng.bytes(1 + (l % 7)));
            c03_check(ctx, &g, "valid_frame_with_suffix");
            if kind == 2 {
                for sfx in huge_suffixes(&mut rng, f.len()).into_iter().take(2) {
                    let mut g = f.clone();
                    g.extend(sfx);
                    c03_check(ctx, &g, "valid_frame_with_suffix_beyond_64KiB");
                }
            }
            // wrong preambles (all 255)
            if kind == 2 || l < 4 {
                let mut g = f.clone();
                for b in 0..=255u8 {
                    if b != 0xD3 {
                        g[0] = b;
                        c03_check(ctx, &g, "wrong_preamble");
                    }
                }
            }
            // every truncation length (full for short frames and random kind; stride otherwise)
            let step = if thorough || l <= 80 || kind == 2 { 1 } else { 13 };
            let mut t = 0;
            while t < f.len() {
                c03_check(ctx, &f[..t], "truncation");
                t += step;
            }
            c03_check(ctx, &f[..f.len() - 1], "truncation");
            // each of the 24 CRC bits flipped; each CRC byte replaced
            let n = f.len();
            for bit in 0..24 {
                let mut g = f.clone();
                bits::flip_bit(&mut g, (n - 3) * 8 + bit);
                c03_check(ctx, &g, "crc_bit_flipped");
            }
            for byte in 0..3 {
                let mut g = f.clone();
                let old = g[n - 3 + byte];
                let mut nb = rng.u8();
                if nb == old {
                    nb = old.wrapping_add(1);
                }
                g[n - 3 + byte] = nb;
                c03_check(ctx, &g, "crc_byte_replaced");
                g[n - 3 + byte] = old.wrapping_add(1);
                c03_check(ctx, &g, "crc_byte_replaced");
                g[n - 3 + byte] = old.wrapping_sub(1);
                c03_check(ctx, &g, "crc_byte_replaced");
            }
            // reserved bits: all 63 non-zero settings; CRC recomputed => accepted with same L
            for r in 1..64u8 {
                let g = crc::frame_with_reserved(&payload, r);
                c03_check(ctx, &g, "reserved_bits_set_crc_recomputed");
                if r.count_ones() == 1 || kind == 2 {
                    let mut h = f.clone();
                    h[1] |= r << 2;
                    c03_check(ctx, &h, "reserved_bits_set_crc_stale");
                }
            }
            // length field perturbed (CRC stale and CRC recomputed over the new extent)
            for d in [1i64, -1, 2, -2, 4, 8, 16, 32, 64, 128, 256, 512, -256] {
                let nl = l as i64 + d;
                if !(0..=1023).contains(&nl) {
                    continue;
                }
                let mut g = f.clone();
                g[1] = (g[1] & 0xFC) | ((nl >> 8) as u8 & 3);
                g[2] = nl as u8;
                c03_check(ctx, &g, "length_field_perturbed");
                g.extend(rng.bytes(40));
                c03_check(ctx, &g, "length_field_perturbed_with_tail");
            }
            // CRC-state corner: the payload carries, at offset j, the CRC-24Q of everything
            // before it, which drives the checksum register to zero mid-frame (and keeps it
            // there over following zero bytes) -- the state in which table-driven / sliced
            // implementations take shortcuts
            if l >= 4 && (l <= 48 || kind == 2) {
                let js: Vec<usize> = if l <= 48 { (0..=l - 3).collect() } else { (0..24).map(|_| rng.usize_below(l - 3 + 1)).collect() };
                for j in js {
                    let mut pl = payload.clone();
                    let mut pre = vec![0xD3u8, ((l >> 8) & 3) as u8, l as u8];
                    pre.extend_from_slice(&pl[..j]);
                    let c = crc::crc24q(&pre);
                    pl[j] = (c >> 16) as u8;
                    pl[j + 1] = (c >> 8) as u8;
                    pl[j + 2] = c as u8;
                    let zeros = rng.usize_below(6);
                    for b in pl.iter_mut().skip(j + 3).take(zeros) {
                        *b = 0;
                    }
                    let g = crc::frame(&pl);
                    c03_check(ctx, &g, "crc_register_driven_to_zero");
                    // and the same body with the checksum of the body *without* those bytes
                    // (what a skipping implementation would compute): must be rejected
                    let mut short = pre.clone();
                    short.extend_from_slice(&pl[(j + 3 + zeros.min(1)).min(l)..]);
                    let wrong = crc::crc24q(&short);
                    let n = g.len();
                    let mut h = g.clone();
                    h[n - 3] = (wrong >> 16) as u8;
                    h[n - 2] = (wrong >> 8) as u8;
                    h[n - 1] = wrong as u8;
                    if h != g {
                        c03_check(ctx, &h, "crc_register_driven_to_zero_wrong_trailer");
                    }
                }
            }
            // one payload bit flipped
            if l > 0 {
                for _ in 0..8 {
                    let mut g = f.clone();
                    bits::flip_bit(&mut g, 24 + rng.usize_below(l * 8));
                    c03_check(ctx, &g, "payload_bit_flipped");
                }
            }
        }
    });
    total.exhaustive_parts.push("payload length L in 0..=1023 (every value, several payloads each)".into());
    // part 2: random slices biased to start with 0xD3
    let per = n_random / workers as u64;
    let rnd = par::run(workers, move |w, _n, ctx| {
        let mut rng = Rng::derive(seed, "C03.rand", w as u64);
        for _ in 0..per {
            let len = match rng.below(8) {
                0 => rng.usize_below(8),
                1 => rng.usize_below(1100),
                _ => rng.usize_below(64),
            };
            let mut s = rng.bytes(len);
            if !s.is_empty() && rng.chance(7, 8) {
                s[0] = 0xD3;
            }
            if s.len() > 2 && rng.chance(1, 2) {
                // make the length field small so that complete candidates occur
                s[1] &= 0xFC;
                s[2] = rng.below(s.len() as u64 + 3) as u8;
            }
            if s.len() >= 6 && rng.chance(1, 4) {
                // valid checksum at the declared extent if it fits
                let l = (((s[1] & 3) as usize) << 8) | s[2] as usize;
                if s.len() >= l + 6 {
                    let c = crc::crc24q(&s[..l + 3]);
                    s[l + 3] = (c >> 16) as u8;
                    s[l + 4] = (c >> 8) as u8;
                    s[l + 5] = c as u8;
                }
            }
            c03_check(ctx, &s, "random_slice");
        }
    });
    total.merge(rnd);
    for k in ["outcome_accept", "outcome_incomplete", "outcome_not_valid"] {
        if total.get(k) == 0 {
            total.inconclusive(format!("no case with {} was observed", k));
        }
    }
    Outcome {
        ctx: total,
        rule: "every L in 0..=1023 x payloads x near-miss families (wrong preamble, truncations, CRC bit/byte damage, reserved bits, length perturbation, payload flips) + random slices biased to 0xD3; oracle = independent bitwise CRC-24Q classifier; non-trivial = slice starts with 0xD3 and has >= 6 bytes; distinct by slice hash".into(),
        exhaustive: false,
        extra: json!({}),
    }
}

// ------------------------------------------------------------------------------------
// C04
// ------------------------------------------------------------------------------------

/// returns true if the damaged frame was (wrongly) delivered
fn c04_observe(ctx: &mut Ctx, damaged: &[u8], fault: &'static str, detail: impl Fn() -> Value) {
    ctx.eval();
    ctx.count(fault);
    // every damaged frame is a case of its own: distinct by content hash
    ctx.nontrivial(hash_bytes(damaged));
    let r = guard(|| {
        let a = match MessageFrame::new(damaged) {
            Ok(_) => 1u8,
            Err(RtcmError::NotValid) => 0,
            Err(RtcmError::Incomplete) => 2,
            Err(_) => 3,
        };
        let (consumed, f) = next_msg_frame(damaged);
        let start = f.as_ref().map(|f| consumed as i64 - f.frame_len() as i64);
        let mut it = MsgFrameIter::new(damaged);
        let mut iter_first_start: Option<i64> = None;
        let mut calls = 0usize;
        loop {
            let before = it.consumed();
            let n = (&mut it).next();
            calls += 1;
            match n {
                Some(fr) => {
                    let st = it.consumed() as i64 - fr.frame_len() as i64;
                    if iter_first_start.is_none() {
                        iter_first_start = Some(st);
                    }
                    let _ = before;
                }
                None => break,
            }
            if calls > damaged.len() + 2 {
                break;
            }
        }
        (a, start, iter_first_start)
    });
    match r {
        Err(p) => ctx.panic_violation("C04.no_panic", &p, "scanning a damaged frame", json!({"kind":"damaged","hex":hex(damaged),"fault":detail()})),
        Ok((a, start, iter_start)) => {
            if start.is_some() && start != Some(0) {
                ctx.count("inner_nested_frame_delivered_instead(allowed)");
            }
            let mut bad: Option<String> = None;
            if a != 0 {
                bad = Some(format!("MessageFrame::new gave {}", ["NotValid", "ACCEPTED", "Incomplete", "other error"][a as usize]));
            } else if start == Some(0) {
                bad = Some("next_msg_frame delivered the damaged frame".into());
            } else if iter_start == Some(0) {
                bad = Some("MsgFrameIter delivered the damaged frame".into());
            }
            if let Some(b) = bad {
                ctx.violation(
                    format!("C04.rejected|{}|{}", fault, if a == 1 { "accepted" } else if a != 0 { "wrong_error" } else { "delivered" }),
                    "C04.rejected",
                    format!("{}; fault={} {}; damaged frame={}", b, fault, detail(), hex_short(damaged)),
                    json!({"kind":"damaged","hex":hex(damaged),"fault":detail()}),
                );
            }
        }
    }
}

/// the damaged frame directly after an intact copy of itself (what a cache keyed on the last
/// delivered frame would confuse): one iterator over `valid ++ damaged`
fn c04_after_copy(ctx: &mut Ctx, valid: &[u8], damaged: &[u8], fault: &'static str, detail: impl Fn() -> Value) {
    ctx.eval();
    ctx.count("damaged_frame_after_intact_copy");
    let mut buf = valid.to_vec();
    buf.extend_from_slice(damaged);
    let n = valid.len();
    let r = guard(|| {
        let mut it = MsgFrameIter::new(&buf);
        let mut starts: Vec<usize> = Vec::new();
        let mut calls = 0;
        while let Some(fr) = (&mut it).next() {
            starts.push(it.consumed() - fr.frame_len());
            calls += 1;
            if calls > buf.len() + 1 {
                break;
            }
        }
        // and the stateless entry point called twice
        let (c1, f1) = next_msg_frame(&buf);
        let first_ok = f1.is_some() && c1 == n;
        let second = if first_ok { next_msg_frame(&buf[c1..]).1.map(|f| f.frame_len()).map(|fl| (fl, next_msg_frame(&buf[c1..]).0)) } else { None };
        (starts, first_ok, second.map(|(fl, c)| c - fl))
    });
    let rp = || json!({"kind":"valid_then_damaged","valid":hex(valid),"hex":hex(damaged),"fault":detail()});
    match r {
        Err(p) => ctx.panic_violation("C04.no_panic", &p, "iterating valid ++ damaged", rp()),
        Ok((starts, first_ok, second_start)) => {
            if starts.first() != Some(&0) || !first_ok {
                ctx.violation("C04.intact_copy_delivered".into(), "C04.intact_copy_delivered", format!("the intact frame in front of the damaged copy was not delivered first (iterator starts {:?})", starts), rp());
            } else if starts.contains(&n) || second_start == Some(0) {
                ctx.violation(
                    format!("C04.rejected|{}|delivered_after_intact_copy", fault),
                    "C04.rejected",
                    format!("damaged frame delivered when it directly follows an intact copy of itself; fault={} {}; iterator frame starts {:?}", fault, detail(), starts),
                    rp(),
                );
            }
        }
    }
}

/// several damaged copies back to back in one buffer (a noisy link damages frames in runs): whatever the scanner
/// concluded about one candidate must not colour its verdict on the next.  Oracle: no frame is delivered at any of
/// the copies' start offsets (frames nested inside a payload may legitimately be found elsewhere).
fn c04_run_of_damaged(ctx: &mut Ctx, parts: &[&[u8]], detail: impl Fn() -> Value) {
    ctx.eval();
    ctx.count("runs_of_damaged_frames_in_one_buffer");
    let mut buf: Vec<u8> = Vec::new();
    let mut bounds: Vec<usize> = Vec::new();
    for p in parts {
        bounds.push(buf.len());
        buf.extend_from_slice(p);
    }
    ctx.nontrivial(hash_bytes(&buf));
    let r = guard(|| {
        let mut starts: Vec<usize> = Vec::new();
        let mut it = MsgFrameIter::new(&buf);
        let mut calls = 0;
        while let Some(fr) = (&mut it).next() {
            starts.push(it.consumed() - fr.frame_len());
            calls += 1;
            if calls > buf.len() + 1 {
                break;
            }
        }
        // the stateless entry point, one call over the whole run
        let (c, f) = next_msg_frame(&buf);
        if let Some(f) = f {
            starts.push(c - f.frame_len());
        }
        starts
    });
    let rp = || json!({"kind":"run_of_damaged","parts":parts.iter().map(|p| hex(p)).collect::<Vec<_>>(),"fault":detail()});
    match r {
        Err(p) => ctx.panic_violation("C04.no_panic", &p, "scanning a run of damaged frames", rp()),
        Ok(starts) => {
            if let Some(b) = bounds.iter().position(|b| starts.contains(b)) {
                ctx.violation(
                    "C04.rejected|run_of_damaged_frames|delivered".into(),
                    "C04.rejected",
                    format!("damaged frame #{} of a run of {} damaged frames in one buffer was delivered; fault={}; delivered starts {:?}", b, parts.len(), detail(), starts),
                    rp(),
                );
            }
        }
    }
}

fn allowed_positions(frame_len: usize) -> Vec<usize> {
    let mut v: Vec<usize> = (8..14).collect();
    v.extend(24..frame_len * 8);
    v
}

fn c04_frame(ctx: &mut Ctx, rng: &mut Rng, f: &[u8], thorough: bool, label: &str) {
    let pos = allowed_positions(f.len());
    let nbits = f.len() * 8;
    let mut g = f.to_vec();
    ctx.count_dyn(format!("frames:{}", label));
    // all single bits
    for &a in &pos {
        bits::flip_bit(&mut g, a);
        c04_observe(ctx, &g, "single_bit", || json!({"bits":[a]}));
        if a < 14 || f.len() <= 64 || a % 7 == 0 {
            c04_after_copy(ctx, f, &g, "single_bit", || json!({"bits":[a]}));
        }
        bits::flip_bit(&mut g, a);
    }
    // the damaged frame with something behind it in the same slice (zero padding of a receive buffer, ones, a lone
    // byte): single-bit errors in the checksum and a sample elsewhere
    {
        let crc0 = nbits - 24;
        let mut positions: Vec<usize> = (crc0..nbits).collect();
        for _ in 0..8 {
            positions.push(*rng.pick(&pos));
        }
        for a in positions {
            let mut d = f.to_vec();
            bits::flip_bit(&mut d, a);
            for sfx in [&[0x00u8][..], &[0xFF], &[0x01], &[0x80], &[0, 0, 0, 0], &[0xFF, 0xFF, 0xFF, 0xFF], &[0xD3]] {
                let mut e = d.clone();
                e.extend_from_slice(sfx);
                c04_observe(ctx, &e, "single_bit_with_bytes_behind_the_frame", || json!({"bits":[a],"suffix":sfx}));
            }
        }
    }
    // runs of damaged copies in one buffer: every ordered pair of single-bit errors in the checksum, pairs of a
    // checksum error with an error elsewhere (both orders), and runs of three
    {
        let crc0 = nbits - 24;
        let one = |a: usize| {
            let mut d = f.to_vec();
            bits::flip_bit(&mut d, a);
            d
        };
        for a in crc0..nbits {
            let da = one(a);
            for b in crc0..nbits {
                let db = one(b);
                c04_run_of_damaged(ctx, &[&da, &db], || json!({"bits_first":[a],"bits_second":[b]}));
            }
            for _ in 0..6 {
                let b = *rng.pick(&pos);
                let db = one(b);
                c04_run_of_damaged(ctx, &[&da, &db], || json!({"bits_first":[a],"bits_second":[b]}));
                c04_run_of_damaged(ctx, &[&db, &da], || json!({"bits_first":[b],"bits_second":[a]}));
                let c = crc0 + rng.usize_below(24);
                let dc = one(c);
                c04_run_of_damaged(ctx, &[&da, &db, &dc], || json!({"bits_first":[a],"bits_second":[b],"bits_third":[c]}));
            }
        }
    }
    // all 63 reserved-bit patterns after an intact copy
    for r in 1..64u8 {
        g[1] ^= r << 2;
        c04_observe(ctx, &g, "reserved_bits_pattern", || json!({"reserved_xor": r}));
        c04_after_copy(ctx, f, &g, "reserved_bits_pattern", || json!({"reserved_xor": r}));
        g[1] ^= r << 2;
    }
    // pairs: all for frames <= 64 bytes, sampled otherwise
    if f.len() <= 64 {
        for i in 0..pos.len() {
            bits::flip_bit(&mut g, pos[i]);
            for j in i + 1..pos.len() {
                bits::flip_bit(&mut g, pos[j]);
                c04_observe(ctx, &g, "bit_pair_exhaustive", || json!({"bits":[pos[i], pos[j]]}));
                bits::flip_bit(&mut g, pos[j]);
            }
            bits::flip_bit(&mut g, pos[i]);
        }
        ctx.count("frames_with_all_pairs");
    } else {
        let n = if thorough { 20_000 } else { 3_000 };
        for _ in 0..n {
            let a = *rng.pick(&pos);
            let mut b = *rng.pick(&pos);
            if rng.chance(1, 3) {
                // close pairs and pairs at special distances
                let d = *rng.pick(&[1usize, 7, 8, 23, 24, 25, 47, 48, 1023, 4095]);
                if a + d < nbits && a + d >= 24 {
                    b = a + d;
                }
            }
            if a == b {
                continue;
            }
            bits::flip_bit(&mut g, a);
            bits::flip_bit(&mut g, b);
            c04_observe(ctx, &g, "bit_pair_sampled", || json!({"bits":[a, b]}));
            bits::flip_bit(&mut g, a);
            bits::flip_bit(&mut g, b);
        }
    }
    // odd-weight patterns
    let n_odd = if thorough { 4_000 } else { 600 };
    for _ in 0..n_odd {
        let k = match rng.below(4) {
            0 => 3,
            1 => 5,
            2 => 7,
            _ => 2 * rng.range(4, 40) as usize + 1,
        };
        if k > pos.len() {
            continue;
        }
        let mut chosen: Vec<usize> = Vec::with_capacity(k);
        while chosen.len() < k {
            let a = *rng.pick(&pos);
            if !chosen.contains(&a) {
                chosen.push(a);
            }
        }
        for &a in &chosen {
            bits::flip_bit(&mut g, a);
        }
        c04_observe(ctx, &g, "odd_weight", || json!({"bits": chosen}));
        for &a in &chosen {
            bits::flip_bit(&mut g, a);
        }
    }
    // bursts: every length 2..=24 at every start position; first and last bit flipped,
    // interior sampled (several patterns incl. all-set and none-set); bits of the length
    // field / preamble are never flipped
    let allowed = |b: usize| (8..14).contains(&b) || (b >= 24 && b < nbits);
    let starts: Vec<usize> = pos.clone();
    let patterns = if thorough { 3 } else { 2 };
    let stride = if f.len() <= 64 { 1 } else if thorough { 1 + f.len() / 400 } else { 1 + f.len() / 80 };
    let mut si = rng.usize_below(stride);
    while si < starts.len() {
        let st = starts[si];
        si += stride;
        for blen in 2..=24usize {
            let en = st + blen - 1;
            if !allowed(en) {
                continue;
            }
            for pat in 0..patterns {
                let interior: u32 = match pat {
                    0 => 0,
                    1 => u32::MAX,
                    _ => rng.u32(),
                };
                let mut flipped: Vec<usize> = vec![st, en];
                for k in 1..blen - 1 {
                    let b = st + k;
                    if allowed(b) && (interior >> k) & 1 == 1 {
                        flipped.push(b);
                    }
                }
                for &a in &flipped {
                    bits::flip_bit(&mut g, a);
                }
                c04_observe(ctx, &g, "burst_le_24", || json!({"burst_start": st, "burst_len": blen, "bits": flipped}));
                for &a in &flipped {
                    bits::flip_bit(&mut g, a);
                }
                if blen == 2 {
                    break;
                }
            }
        }
    }
    debug_assert_eq!(&g[..], f);
}

pub fn c04(p: &Params) -> Outcome {
    let seed = p.seed;
    let thorough = p.thorough;
    // frame list: synthetic payload lengths + every message type
    let mut jobs: Vec<(u16, usize)> = Vec::new(); // (msg number or 0, payload len)
    if thorough {
        for l in 0..=1023usize {
            jobs.push((0, l));
        }
        for &n in gen::supported_numbers() {
            jobs.push((n, 0));
            jobs.push((n, 0));
        }
    } else {
        for l in (0..=40usize).chain([57, 58, 59, 100, 255, 256, 257, 511, 512, 700, 1000, 1022, 1023]) {
            jobs.push((0, l));
        }
        let nums = gen::supported_numbers();
        let mut r = Rng::derive(seed, "C04.pick", 0);
        for i in 0..nums.len() {
            if i % 3 == (r.below(3) as usize) || nums.len() < 20 {
                jobs.push((nums[i], 0));
            }
        }
    }
    // frames whose checksum is 000000 (payload ends with the CRC of everything before it) and
    // frames whose checksum register passes through zero mid-frame: number 4095 marks them
    for l in [3usize, 4, 8, 19, 40, 61, 200, 1023] {
        jobs.push((4095, l));
        jobs.push((4094, l));
    }
    // frames whose checksum equals the CRC of a proper prefix (the register returns to an earlier value): at the
    // 256-byte marks and at arbitrary offsets -- number 4093 marks them
    for l in [40usize, 260, 300, 515, 600, 770, 900, 1023] {
        jobs.push((4093, l));
        jobs.push((4093, l));
    }
    let njobs = jobs.len();
    let mut total = par::run_queue(p.workers, njobs, move |i, ctx| {
        let (n, l) = jobs[i];
        let mut rng = Rng::derive(seed, "C04.frame", i as u64);
        let reps = if thorough && n == 0 { 3 } else { 1 };
        for rep in 0..reps {
            let (f, label) = if n == 4093 {
                let mut payload = rng.bytes(l);
                // prefix length counted from the start of the frame; the last three payload bytes lie behind it
                let k = if rep == 0 && i % 2 == 0 && l >= 256 { 256 * rng.range(1, (l / 256) as i64) as usize } else { rng.range(3, l as i64 - 3) as usize };
                let mut fr = vec![0xD3u8, ((l >> 8) & 3) as u8, l as u8];
                fr.extend_from_slice(&payload);
                let target = crc::crc24q(&fr[..k]);
                let r = crc::crc24q(&fr[..l]); // everything before the last three payload bytes
                // feeding 24 bits X turns the register r into ((r ^ X) * x^24) mod P: undo 24 shift steps on the target
                let mut y = target;
                for _ in 0..24 {
                    y = if y & 1 == 1 { ((y ^ 0x864CFB) >> 1) | 0x80_0000 } else { y >> 1 };
                }
                let x = r ^ y;
                payload[l - 3] = (x >> 16) as u8;
                payload[l - 2] = (x >> 8) as u8;
                payload[l - 1] = x as u8;
                let f = crc::frame(&payload);
                let n_ = f.len();
                let trailer = ((f[n_ - 3] as u32) << 16) | ((f[n_ - 2] as u32) << 8) | f[n_ - 1] as u32;
                if trailer != target {
                    ctx.count("prefix_crc_construction_failed");
                    continue;
                }
                ctx.count("frames_whose_checksum_equals_the_crc_of_a_prefix");
                if k % 256 == 0 {
                    ctx.count("frames_whose_checksum_equals_the_crc_of_a_256_byte_multiple_prefix");
                }
                (f, "checksum_equals_prefix_crc".to_string())
            } else if n >= 4094 {
                let mut payload = rng.bytes(l);
                let j = if n == 4095 { l - 3 } else { rng.usize_below(l - 3 + 1) };
                let mut pre = vec![0xD3u8, ((l >> 8) & 3) as u8, l as u8];
                pre.extend_from_slice(&payload[..j]);
                let c = crc::crc24q(&pre);
                payload[j] = (c >> 16) as u8;
                payload[j + 1] = (c >> 8) as u8;
                payload[j + 2] = c as u8;
                let f = crc::frame(&payload);
                if n == 4095 {
                    ctx.count("frames_with_all_zero_checksum");
                    debug_assert_eq!(&f[f.len() - 3..], &[0, 0, 0]);
                }
                (f, if n == 4095 { "zero_checksum".to_string() } else { "register_zero_mid_frame".to_string() })
            } else if n == 0 {
                let payload = payload_kind(&mut rng, l, if reps == 1 { 2 } else { rep });
                let res = if rng.chance(1, 4) { rng.below(64) as u8 } else { 0 };
                (crc::frame_with_reserved(&payload, res), "synthetic".to_string())
            } else {
                match gen::lib_frame(n, &mut rng) {
                    Some(f) => (f, "typed".to_string()),
                    None => {
                        ctx.count("typed_frame_generation_failed");
                        continue;
                    }
                }
            };
            if ctx.want_sample() {
                ctx.sample(|| json!({"frame": hex_short(&f), "faults": "all single bits; all pairs if <=64 bytes else sampled; odd-weight patterns; bursts 2..=24 at every start"}));
            }
            c04_frame(ctx, &mut rng, &f, thorough, &label);
        }
    });
    // every possible wrong checksum (all 2^24 - 1 bursts confined to the trailer) of a few short frames, chosen
    // where a digest implementation is most likely to slip: empty and one-byte payloads, an all-zero checksum, the
    // register passing through zero at word-aligned offsets with zero bytes behind it, and ordinary payloads
    let mut special: Vec<Vec<u8>> = vec![crc::frame(&[]), crc::frame(&[0x3E]), crc::frame(&[0x3E, 0xD0])];
    {
        let mut r = Rng::derive(seed, "C04.trailers", 0);
        let n_extra = if thorough { 12 } else { 2 };
        for k in 0..(6 + n_extra) {
            let l = if k < 6 { 16usize } else { r.range(3, 40) as usize };
            let mut payload = r.bytes(l);
            if k < 6 {
                // the checksum of everything before frame offset 3 + j lands at j..j+3; zero bytes follow
                let j = [1usize, 5, 9, 2, 7, 13][k];
                let mut pre = vec![0xD3u8, 0, l as u8];
                pre.extend_from_slice(&payload[..j]);
                let c = crc::crc24q(&pre);
                payload[j] = (c >> 16) as u8;
                payload[j + 1] = (c >> 8) as u8;
                payload[j + 2] = c as u8;
                for b in payload[j + 3..].iter_mut().take(if k % 2 == 0 { 1 } else { 4 }) {
                    *b = 0;
                }
            }
            special.push(crc::frame(&payload));
        }
    }
    let chunks = 64usize;
    let nspecial = special.len();
    let trailers = par::run_queue(p.workers, nspecial * chunks, move |ji, ctx| {
        let f = &special[ji / chunks];
        let part = (ji % chunks) as u32;
        let n = f.len();
        let good = ((f[n - 3] as u32) << 16) | ((f[n - 2] as u32) << 8) | f[n - 1] as u32;
        let mut g = f.clone();
        let per = (1u32 << 24) / chunks as u32;
        let r = guard(|| {
            let mut bad: Option<(u32, u8)> = None;
            for t in part * per..(part + 1) * per {
                g[n - 3] = (t >> 16) as u8;
                g[n - 2] = (t >> 8) as u8;
                g[n - 1] = t as u8;
                let a = match MessageFrame::new(&g) {
                    Ok(_) => 1u8,
                    Err(RtcmError::NotValid) => 0,
                    Err(_) => 2,
                };
                if (t == good) != (a == 1) || (t != good && a != 0) {
                    bad = Some((t, a));
                    break;
                }
            }
            bad
        });
        ctx.evals(per as u64);
        ctx.nontrivial_enumerated(per as u64);
        ctx.count_n("trailer_values_enumerated", per as u64);
        if part == 0 {
            ctx.count("frames_with_every_trailer_value_enumerated");
        }
        match r {
            Err(p) => ctx.panic_violation("C04.no_panic", &p, "MessageFrame::new on a frame with a replaced checksum", json!({"kind":"damaged","hex":hex(f),"fault":"trailer enumeration"})),
            Ok(Some((t, a))) => {
                g[n - 3] = (t >> 16) as u8;
                g[n - 2] = (t >> 8) as u8;
                g[n - 1] = t as u8;
                ctx.violation(
                    format!("C04.rejected|every_trailer_value|{}", if a == 1 { "accepted" } else if t == good { "intact_frame_rejected" } else { "wrong_error" }),
                    "C04.rejected",
                    format!("frame {} with its checksum {:06x} replaced by {:06x}: MessageFrame::new gave {}", hex_short(f), good, t, ["NotValid", "ACCEPTED", "another error"][a as usize]),
                    json!({"kind":"damaged","hex":hex(&g),"fault":{"trailer_replaced_by": format!("{:06x}", t)}}),
                );
            }
            Ok(None) => {}
        }
    });
    total.merge(trailers);
    total.exhaustive_parts.push("every one of the 2^24 checksum values of the short special frames (frames_with_every_trailer_value_enumerated)".into());
    total.exhaustive_parts.push("single-bit faults: every position in reserved bits, payload and checksum of every frame used".into());
    total.exhaustive_parts.push("bit pairs: all pairs for frames <= 64 bytes".into());
    if total.get("single_bit") == 0 || total.get("burst_le_24") == 0 {
        total.inconclusive("no faults were injected".into());
    }
    Outcome {
        ctx: total,
        rule: "fault injection on valid frames (synthetic payload lengths and library-generated frames of message types): single bits, bit pairs, odd-weight patterns, bursts 2..=24, the damaged frame after an intact copy, runs of two and three damaged copies in one buffer (all ordered pairs of checksum-bit errors), every one of the 2^24 checksum values of a few short frames (zero checksum, register zero at aligned offsets, empty payload), frames whose checksum equals the CRC of a proper prefix (256-byte marks and arbitrary offsets); evaluations = damaged frames presented; every damaged frame is non-trivial; distinct by hash of the damaged frame".into(),
        exhaustive: false,
        extra: json!({}),
    }
}

// ------------------------------------------------------------------------------------
// C05
// ------------------------------------------------------------------------------------

pub fn c05_check(ctx: &mut Ctx, buf: &[u8], tags: u32) {
    ctx.eval();
    let (rc, rf) = scan(buf);
    let r = guard(|| {
        let (c, f) = next_msg_frame(buf);
        let fr = f.map(|f| (f.frame_len(), f.frame_data().to_vec()));
        // iterator
        let mut it = MsgFrameIter::new(buf);
        let mut frames: Vec<(usize, usize)> = Vec::new();
        let mut calls = 0usize;
        let mut runaway = false;
        loop {
            let n = (&mut it).next();
            calls += 1;
            match n {
                Some(fr) => {
                    let end = it.consumed();
                    frames.push((end.wrapping_sub(fr.frame_len()), end));
                }
                None => break,
            }
            if calls > buf.len() + 1 {
                runaway = true;
                break;
            }
        }
        (c, fr, frames, it.consumed(), calls, runaway)
    });
    let replay = || json!({"kind":"buffer","hex":hex(buf)});
    let (c, fr, it_frames, it_consumed, _calls, runaway) = match r {
        Ok(x) => x,
        Err(p) => {
            ctx.panic_violation("C05.no_panic", &p, "next_msg_frame / MsgFrameIter", replay());
            return;
        }
    };
    let mut nontrivial = false;
    match rf {
        Some((s, _)) if s == 0 => ctx.count("buffers_frame_at_0"),
        Some(_) => {
            ctx.count("buffers_frame_after_skipped_bytes");
            nontrivial = true;
        }
        None if rc < buf.len() => {
            ctx.count("buffers_stopped_at_incomplete_candidate");
            nontrivial = true;
        }
        None => ctx.count("buffers_all_consumed_no_frame"),
    }
    if nontrivial || tags & (128 | 256 | 512 | 8 | 16) != 0 {
        ctx.nontrivial(hash_bytes(buf));
    }
    for (i, t) in gen::STREAM_TAGS.iter().enumerate() {
        if tags & (1 << i) != 0 {
            ctx.count(t);
        }
    }
    // (1) equality with the reference scanner
    let lib_range = fr.as_ref().map(|(fl, _)| (c.wrapping_sub(*fl), c));
    if c != rc || lib_range != rf {
        let what = match (rf, lib_range) {
            (Some(_), None) => "frame_lost",
            (None, Some(_)) => "frame_invented",
            (Some(a), Some(b)) if a != b => "wrong_frame",
            _ => "wrong_consumed",
        };
        ctx.violation(
            format!("C05.scan_result|{}", what),
            "C05.scan_result",
            format!("reference: consumed={} frame={:?}; library: consumed={} frame={:?}; buffer={}", rc, rf, c, lib_range, hex_short(buf)),
            replay(),
        );
        return;
    }
    // (2) direct invariants
    if c > buf.len() {
        ctx.violation("C05.consumed_le_len".into(), "C05.consumed_le_len", format!("consumed {} > len {}", c, buf.len()), replay());
        return;
    }
    if let Some((fl, data)) = &fr {
        if *fl > c || &buf[c - fl..c] != &data[..] {
            ctx.violation("C05.frame_bytes".into(), "C05.frame_bytes", format!("delivered frame bytes differ from buffer[{}..{}]", c as i64 - *fl as i64, c), replay());
            return;
        }
    }
    // every skipped position is not 0xD3, or is a complete candidate whose reference CRC fails
    let skipped_end = match rf {
        Some((s, _)) => s,
        None => c,
    };
    for i in 0..skipped_end {
        if buf[i] == 0xD3 {
            ctx.count("skipped_0xd3_positions");
            match classify(&buf[i..]) {
                Class::NotValid => {}
                other => {
                    ctx.violation(
                        "C05.skipped_dead".into(),
                        "C05.skipped_dead",
                        format!("skipped position {} is a live candidate ({:?})", i, other),
                        replay(),
                    );
                    return;
                }
            }
        }
    }
    // (3) iterator == repeated reference scanning
    let (ref_frames, ref_total) = scan_all(buf);
    if ref_frames.len() >= 2 {
        ctx.count("buffers_with_2plus_frames");
    }
    if runaway {
        ctx.violation("C05.iter_terminates".into(), "C05.iter_terminates", format!("more than len+1 = {} next() calls", buf.len() + 1), replay());
        return;
    }
    if it_frames != ref_frames || it_consumed != ref_total {
        ctx.violation(
            format!("C05.iterator|{}", if it_frames != ref_frames { "frames" } else { "consumed" }),
            "C05.iterator",
            format!("reference frames={:?} total={}; iterator frames={:?} consumed={}; buffer={}", ref_frames, ref_total, it_frames, it_consumed, hex_short(buf)),
            replay(),
        );
        return;
    }
    // (4) the iterator's other entry points -- nth, skip, step_by, count, last, size_hint-driven adaptors -- yield
    // the same sequence as repeated next(): "yields exactly the frames, in order"
    if (ctx.evaluations % 3 == 0 || buf.len() > 60_000) && (!ref_frames.is_empty() || buf.contains(&0xD3)) {
        let nref = ref_frames.len();
        let r = guard(|| {
            let start_of = |it: &MsgFrameIter, fr: &MessageFrame| it.consumed().wrapping_sub(fr.frame_len());
            let mut out: Vec<(&'static str, Vec<usize>)> = Vec::new();
            for k in [1usize, 2, 5] {
                let mut it = MsgFrameIter::new(buf);
                let got = (&mut it).nth(k).map(|fr| fr.frame_data().as_ptr() as usize - buf.as_ptr() as usize);
                let _ = start_of;
                out.push((["", "nth(1)", "nth(2)", "", "", "nth(5)"][k], got.into_iter().collect()));
            }
            let mut it = MsgFrameIter::new(buf);
            out.push(("skip(1)", (&mut it).skip(1).take(4).map(|fr| fr.frame_data().as_ptr() as usize - buf.as_ptr() as usize).collect()));
            let mut it = MsgFrameIter::new(buf);
            out.push(("step_by(2)", (&mut it).step_by(2).take(4).map(|fr| fr.frame_data().as_ptr() as usize - buf.as_ptr() as usize).collect()));
            let mut it = MsgFrameIter::new(buf);
            out.push(("last()", (&mut it).last().map(|fr| fr.frame_data().as_ptr() as usize - buf.as_ptr() as usize).into_iter().collect()));
            let mut it = MsgFrameIter::new(buf);
            out.push(("count()", vec![(&mut it).count()]));
            let mut it = MsgFrameIter::new(buf);
            let mut a: Vec<usize> = Vec::new();
            if let Some(f0) = (&mut it).next() {
                a.push(f0.frame_data().as_ptr() as usize - buf.as_ptr() as usize);
                if let Some(f2) = (&mut it).nth(1) {
                    a.push(f2.frame_data().as_ptr() as usize - buf.as_ptr() as usize);
                }
            }
            out.push(("next() then nth(1)", a));
            out
        });
        match r {
            Err(p) => ctx.panic_violation("C05.no_panic", &p, "MsgFrameIter adaptors (nth / skip / step_by / last / count)", replay()),
            Ok(out) => {
                ctx.count("buffers_checked_through_iterator_adaptors");
                let starts: Vec<usize> = ref_frames.iter().map(|f| f.0).collect();
                for (name, got) in out {
                    let exp: Vec<usize> = match name {
                        "nth(1)" => starts.get(1).copied().into_iter().collect(),
                        "nth(2)" => starts.get(2).copied().into_iter().collect(),
                        "nth(5)" => starts.get(5).copied().into_iter().collect(),
                        "skip(1)" => starts.iter().skip(1).take(4).copied().collect(),
                        "step_by(2)" => starts.iter().step_by(2).take(4).copied().collect(),
                        "last()" => starts.last().copied().into_iter().collect(),
                        "count()" => vec![nref],
                        _ => {
                            let mut e = Vec::new();
                            if let Some(s0) = starts.first() {
                                e.push(*s0);
                                if let Some(s2) = starts.get(2) {
                                    e.push(*s2);
                                }
                            }
                            e
                        }
                    };
                    if got != exp {
                        ctx.violation(
                            format!("C05.iterator|adaptor|{}", name.split('(').next().unwrap_or(name)),
                            "C05.iterator",
                            format!("{} on the iterator gives {:?}; the frames of this buffer start at {:?}, so it must give {:?}; buffer={}", name, got, starts, exp, hex_short(buf)),
                            replay(),
                        );
                        return;
                    }
                }
            }
        }
    }
    if ctx.want_sample() && nontrivial {
        ctx.sample(|| json!({"buffer": hex_short(buf), "reference": {"consumed": rc, "frame": rf}, "iterator_frames": it_frames}));
    }
}

pub fn c05(p: &Params) -> Outcome {
    let seed = p.seed;
    let n = p.size(3_000_000, 100_000_000);
    let per = n / p.workers as u64;
    let mut total = par::run(p.workers, move |w, _n, ctx| {
        let mut rng = Rng::derive(seed, "C05", w as u64);
        for i in 0..per {
            let max = if i % 50 == 0 { 65_536 } else { 4_096 };
            let (s, tags) = gen::stream(&mut rng, max);
            c05_check(ctx, &s, tags);
            if i % 4000 == 7 {
                // beyond 64 KiB
                let big = gen::long_stream(&mut rng, 270_000);
                ctx.count("buffers_longer_than_64KiB");
                c05_check(ctx, &big, 1);
                // and every suffix that leaves 65536*k + (0..1100) bytes from a frame start
                for _ in 0..6 {
                    let k = rng.usize_below(big.len().saturating_sub(65_000).max(1));
                    c05_check(ctx, &big[k..], 1);
                }
            }
            if i % 4000 == 9 {
                // thousands of rejected candidates within one scanner call
                let (fl, kind) = gen::flood_stream(&mut rng);
                ctx.count("buffers_with_a_flood_of_dead_candidates");
                ctx.count(kind);
                c05_check(ctx, &fl, 1);
            }
            // also every suffix start inside the first bytes (alignment of garbage)
            if i % 16 == 0 && s.len() > 4 {
                let k = rng.usize_below(s.len().min(64));
                c05_check(ctx, &s[k..], tags);
                let cut = rng.usize_below(s.len());
                c05_check(ctx, &s[..cut], tags | 32);
            }
        }
    });
    for k in ["buffers_with_a_flood_of_dead_candidates", "buffers_longer_than_64KiB", "buffers_frame_at_0", "buffers_frame_after_skipped_bytes", "buffers_stopped_at_incomplete_candidate", "buffers_all_consumed_no_frame", "nested_in_invalid_outer", "buffers_with_2plus_frames"] {
        if total.get(k) == 0 {
            total.inconclusive(format!("no buffer of class {} observed", k));
        }
    }
    Outcome {
        ctx: total,
        rule: "generated streams (valid frames, garbage, lone 0xD3, damaged CRC, truncated, long headers, nested frames) up to 64 KiB, long streams to 270 KB and floods of 127..70000 dead candidates in one buffer; oracle = reference scanner + direct invariants + iterator equivalence (next() and the adaptors nth / skip / step_by / last / count); non-trivial = scanner had to skip bytes / stop at an incomplete candidate, or stream contains nested/stray/damaged segments; distinct by buffer hash".into(),
        exhaustive: false,
        extra: json!({}),
    }
}

// ------------------------------------------------------------------------------------
// C06
// ------------------------------------------------------------------------------------

/// The caller model of the property: keep a buffer, append a piece, call the scanner until
/// it yields no frame, drop the consumed bytes.
fn feed(stream: &[u8], cuts: &[usize]) -> Result<(Vec<Vec<u8>>, usize, usize), crate::mon::PanicEv> {
    guard(|| {
        let mut buf: Vec<u8> = Vec::new();
        let mut delivered: Vec<Vec<u8>> = Vec::new();
        let mut total = 0usize;
        let mut pos = 0usize;
        let mut pieces: Vec<usize> = cuts.to_vec();
        pieces.push(stream.len());
        let mut calls = 0usize;
        for &end in &pieces {
            if end < pos {
                continue;
            }
            buf.extend_from_slice(&stream[pos..end]);
            pos = end;
            loop {
                let (c, f) = next_msg_frame(&buf);
                calls += 1;
                let got = f.map(|f| f.frame_data().to_vec());
                let c = c.min(buf.len() + 1_000_000);
                if c > buf.len() {
                    // consumed beyond the buffer: record as an impossible marker frame
                    delivered.push(vec![0xEE; 1]);
                    return (delivered, usize::MAX, calls);
                }
                buf.drain(..c);
                total += c;
                match got {
                    Some(d) => delivered.push(d),
                    None => break,
                }
            }
        }
        (delivered, total, calls)
    })
}

fn cut_class(stream: &[u8], frames: &[(usize, usize)], cut: usize) -> &'static str {
    for &(s, e) in frames {
        if cut == s {
            return "cut_at_frame_start";
        }
        if cut == e {
            return "cut_at_frame_end";
        }
        if cut > s && cut < e {
            let off = cut - s;
            return if off == 1 {
                "cut_after_preamble"
            } else if off == 2 {
                "cut_inside_length_field"
            } else if off == 3 {
                "cut_after_length_field"
            } else if off >= e - s - 3 {
                "cut_inside_checksum"
            } else {
                "cut_inside_payload"
            };
        }
    }
    let _ = stream;
    "cut_outside_frames"
}

fn c06_case(ctx: &mut Ctx, stream: &[u8], cuts: &[usize], sched: &'static str, whole: &(Vec<Vec<u8>>, usize), ref_frames: &[(usize, usize)]) {
    ctx.eval();
    ctx.count(sched);
    for &c in cuts.iter().take(64) {
        ctx.count(cut_class(stream, ref_frames, c));
    }
    let replay = || json!({"kind":"stream_schedule","hex":hex(stream),"cuts":cuts});
    match feed(stream, cuts) {
        Err(p) => ctx.panic_violation("C06.no_panic", &p, "chunked feeding", replay()),
        Ok((frames, total, _calls)) => {
            if !cuts.is_empty() && !ref_frames.is_empty() {
                let mut h = hash_bytes(stream);
                for &c in cuts.iter().take(32) {
                    h = mix(h, c as u64);
                }
                h = mix(h, cuts.len() as u64);
                ctx.nontrivial(h);
            }
            if frames != whole.0 || total != whole.1 {
                let what = if frames.len() < whole.0.len() {
                    "frames_lost"
                } else if frames.len() > whole.0.len() {
                    "frames_extra"
                } else if frames != whole.0 {
                    "frames_differ"
                } else {
                    "consumed_differs"
                };
                ctx.violation(
                    format!("C06.split_independent|{}", what),
                    "C06.split_independent",
                    format!(
                        "schedule={} cuts={:?}: chunked run delivered {} frames, consumed {}; one-piece run delivered {} frames, consumed {}; stream={}",
                        sched,
                        &cuts[..cuts.len().min(12)],
                        frames.len(),
                        total,
                        whole.0.len(),
                        whole.1,
                        hex_short(stream)
                    ),
                    replay(),
                );
            }
        }
    }
}

fn c06_stream(ctx: &mut Ctx, rng: &mut Rng, stream: &[u8], n_random: usize, exhaustive_single: bool) {
    // the one-piece run is the yardstick; tie it to the reference model as well
    let whole = match feed(stream, &[]) {
        Ok((f, t, _)) => (f, t),
        Err(p) => {
            ctx.panic_violation("C06.no_panic", &p, "one-piece feeding", json!({"kind":"stream_schedule","hex":hex(stream),"cuts":[]}));
            return;
        }
    };
    let (ref_frames, ref_total) = scan_all(stream);
    let ref_bytes: Vec<Vec<u8>> = ref_frames.iter().map(|&(s, e)| stream[s..e].to_vec()).collect();
    if ref_bytes != whole.0 || ref_total != whole.1 {
        ctx.violation(
            "C06.whole_matches_reference".into(),
            "C06.whole_matches_reference",
            format!("one-piece run: {} frames consumed {}; reference: {} frames consumed {}", whole.0.len(), whole.1, ref_bytes.len(), ref_total),
            json!({"kind":"stream_schedule","hex":hex(stream),"cuts":[]}),
        );
        return;
    }
    ctx.count("streams");
    if ctx.want_sample() && !ref_frames.is_empty() {
        ctx.sample(|| json!({"stream": hex_short(stream), "frames": ref_frames, "schedules": "one-byte, single cuts, structural cuts, random"}));
    }
    let n = stream.len();
    if n == 0 {
        return;
    }
    // all-1-byte (O(n^2) scanner work: cap)
    if n <= 8192 {
        let cuts: Vec<usize> = (1..n).collect();
        c06_case(ctx, stream, &cuts, "schedule_one_byte_chunks", &whole, &ref_frames);
    }
    // single cuts
    if exhaustive_single && n <= 2048 {
        for c in 0..=n {
            c06_case(ctx, stream, &[c], "schedule_single_cut_exhaustive", &whole, &ref_frames);
        }
        ctx.count("streams_with_every_single_cut");
    } else {
        for _ in 0..8 {
            let c = rng.usize_below(n + 1);
            c06_case(ctx, stream, &[c], "schedule_single_cut_sampled", &whole, &ref_frames);
        }
    }
    // structural cuts: around every 0xD3 and every reference frame boundary
    let mut structural: Vec<usize> = Vec::new();
    for &(s, e) in &ref_frames {
        for d in [0usize, 1, 2, 3, 4] {
            if s + d <= n {
                structural.push(s + d);
            }
        }
        for d in [0usize, 1, 2, 3, 4] {
            if e >= d {
                structural.push(e - d);
            }
        }
    }
    for (i, b) in stream.iter().enumerate() {
        if *b == 0xD3 && structural.len() < 4000 {
            structural.push(i);
            structural.push((i + 1).min(n));
            structural.push((i + 3).min(n));
            structural.push((i + 5).min(n));
            structural.push((i + 6).min(n));
        }
    }
    structural.sort();
    structural.dedup();
    if !structural.is_empty() {
        c06_case(ctx, stream, &structural, "schedule_all_structural_cuts", &whole, &ref_frames);
        for _ in 0..4 {
            let k = 1 + rng.usize_below(structural.len().min(6));
            let mut cuts: Vec<usize> = (0..k).map(|_| *rng.pick(&structural)).collect();
            cuts.sort();
            cuts.dedup();
            c06_case(ctx, stream, &cuts, "schedule_some_structural_cuts", &whole, &ref_frames);
        }
    }
    // random schedules
    for _ in 0..n_random {
        let k = match rng.below(4) {
            0 => 1 + rng.usize_below(3),
            1 => 1 + rng.usize_below(20),
            _ => 1 + rng.usize_below(n.min(200)),
        };
        let mut cuts: Vec<usize> = (0..k).map(|_| rng.usize_below(n + 1)).collect();
        cuts.sort();
        // duplicates = empty pieces, kept on purpose sometimes
        if rng.bool() {
            cuts.dedup();
        }
        c06_case(ctx, stream, &cuts, "schedule_random", &whole, &ref_frames);
    }
}

pub fn c06(p: &Params) -> Outcome {
    let seed = p.seed;
    let n_streams = p.size(30_000, 1_000_000);
    let n_random = if p.thorough { 150 } else { 12 };
    let thorough = p.thorough;
    let per = (n_streams / p.workers as u64).max(1);
    let mut total = par::run(p.workers, move |w, _n, ctx| {
        let mut rng = Rng::derive(seed, "C06", w as u64);
        for i in 0..per {
            let max = match i % 10 {
                0 => 8192,
                1 | 2 => 2048,
                _ => 600,
            };
            let (s, _tags) = gen::stream(&mut rng, max);
            let exhaustive_single = thorough || i % 4 == 0 || s.len() <= 300;
            c06_stream(ctx, &mut rng, &s, n_random, exhaustive_single);
            if i % 900 == 11 {
                // a stream longer than 64 KiB, cut into a few large pieces
                let big = gen::long_stream(&mut rng, 200_000);
                ctx.count("streams_longer_than_64KiB");
                c06_stream(ctx, &mut rng, &big, 3, false);
            }
            if i % 900 == 13 {
                // thousands of rejected candidates in front of the frames: one piece sees them all in one call,
                // small pieces never do
                let (fl, kind) = gen::flood_stream(&mut rng);
                ctx.count("streams_with_a_flood_of_dead_candidates");
                ctx.count(kind);
                c06_stream(ctx, &mut rng, &fl, 3, false);
            }
        }
    });
    for k in ["cut_after_preamble", "cut_inside_length_field", "cut_inside_payload", "cut_inside_checksum", "cut_at_frame_end", "schedule_one_byte_chunks"] {
        if total.get(k) == 0 {
            total.inconclusive(format!("no schedule of class {} observed", k));
        }
    }
    Outcome {
        ctx: total,
        rule: "history = (stream, cut schedule) fed to a caller model (append piece, scan until no frame, drop consumed); oracle = same delivered frame bytes and same total consumed as the one-piece run, which is itself compared with the reference scanner; non-trivial = at least one cut and at least one deliverable frame; distinct by (stream hash, cuts)".into(),
        exhaustive: false,
        extra: json!({}),
    }
}

// ------------------------------------------------------------------------------------
// C13
// ------------------------------------------------------------------------------------

#[derive(PartialEq, Debug, Clone)]
struct Attrs {
    frame_len: usize,
    data_len: usize,
    data: Vec<u8>,
    frame_data: Vec<u8>,
    crc: u32,
    number: Option<u16>,
    message: String,
}

fn attrs_of(s: &[u8]) -> Result<Option<(Attrs, Message)>, crate::mon::PanicEv> {
    guard(|| match MessageFrame::new(s) {
        Ok(f) => {
            let m = f.get_message();
            Some((
                Attrs {
                    frame_len: f.frame_len(),
                    data_len: f.data_len(),
                    data: f.data().to_vec(),
                    frame_data: f.frame_data().to_vec(),
                    crc: f.crc(),
                    number: f.message_number(),
                    message: msg_class(&m),
                },
                m,
            ))
        }
        Err(_) => None,
    })
}

pub fn msg_class(m: &Message) -> String {
    match m {
        Message::Empty => "Empty".into(),
        Message::Corrupt => "Corrupt".into(),
        Message::MsgNotSupported(t) => format!("MsgNotSupported({})", t.message_number),
        other => format!("Typed({})", other.number().map(|n| n as i64).unwrap_or(-1)),
    }
}

fn c13_check(ctx: &mut Ctx, f: &[u8], suffixes: &[Vec<u8>], label: &'static str) {
    let l = f.len() - 6;
    let replay = |sfx: &[u8]| json!({"kind":"frame_suffix","hex":hex(f),"suffix":hex(sfx)});
    let base = match attrs_of(f) {
        Ok(Some(x)) => x,
        Ok(None) => {
            ctx.violation("C13.valid_frame_rejected".into(), "C13.valid_frame_rejected", format!("valid frame rejected: {}", hex_short(f)), replay(&[]));
            return;
        }
        Err(_p) => {
            // a panic while decoding is C02's business, not C13's: count it and move on
            ctx.count("panics_left_to_C02");
            return;
        }
    };
    ctx.count(label);
    // message number rule
    let expect_num = if l >= 2 { Some(((f[3] as u16) << 4) | (f[4] as u16 >> 4)) } else { None };
    for (si, sfx) in std::iter::once(&Vec::new()).chain(suffixes.iter()).enumerate() {
        ctx.eval();
        let mut g = f.to_vec();
        g.extend_from_slice(sfx);
        if si > 0 {
            ctx.nontrivial(mix(hash_bytes(f), hash_bytes(sfx)));
        }
        // the scanner's view of the same bytes
        match guard(|| {
            let (c, fr) = next_msg_frame(&g);
            let stateless = (c, fr.map(|x| x.frame_len()));
            // and the iterator's first step over the same bytes
            let mut it = MsgFrameIter::new(&g);
            let first = (&mut it).next().map(|x| x.frame_len());
            let via_iter = (it.consumed(), first);
            if via_iter != stateless && stateless.1 == Some(f.len()) {
                via_iter
            } else {
                stateless
            }
        }) {
            Ok((c, Some(fl))) if c == f.len() && fl == f.len() => {}
            Ok(other) => {
                ctx.violation(
                    format!("C13.scanner_independent_of_suffix|{}", if sfx.is_empty() { "no_suffix" } else { "suffix" }),
                    "C13.scanner_independent_of_suffix",
                    format!("next_msg_frame / the first MsgFrameIter::next() on a valid frame of {} bytes followed by {} bytes returned {:?} instead of delivering the frame at offset 0", f.len(), sfx.len(), other),
                    replay(sfx),
                );
            }
            Err(_) => ctx.count("panics_left_to_C02"),
        }
        let (a, m) = match attrs_of(&g) {
            Ok(Some(x)) => x,
            Ok(None) => {
                ctx.violation("C13.suffix_changes_acceptance".into(), "C13.suffix_changes_acceptance", format!("frame+suffix rejected; L={} suffix_len={}", l, sfx.len()), replay(sfx));
                continue;
            }
            Err(_p) => {
                ctx.count("panics_left_to_C02");
                continue;
            }
        };
        if a.number != expect_num {
            ctx.violation(
                format!("C13.message_number|L{}|{}", if l < 2 { "lt2" } else { "ge2" }, if sfx.is_empty() { "no_suffix" } else { "suffix" }),
                "C13.message_number",
                format!("L={} suffix_len={}: message_number()={:?}, first 12 payload bits say {:?}; frame={}", l, sfx.len(), a.number, expect_num, hex_short(f)),
                replay(sfx),
            );
        }
        if l < 2 {
            ctx.count("frames_with_L_lt_2_checked");
        }
        if a != base.0 || m != base.1 {
            let field = if a.frame_len != base.0.frame_len {
                "frame_len"
            } else if a.data_len != base.0.data_len {
                "data_len"
            } else if a.data != base.0.data {
                "data"
            } else if a.frame_data != base.0.frame_data {
                "frame_data"
            } else if a.crc != base.0.crc {
                "crc"
            } else if a.number != base.0.number {
                "message_number"
            } else {
                "decoded_message"
            };
            ctx.violation(
                format!("C13.suffix_independent|{}|L{}", field, if l < 2 { "lt2" } else { "ge2" }),
                "C13.suffix_independent",
                format!("attribute {} changes when {} bytes follow the frame (L={}): alone {:?}/{}, with suffix {:?}/{}", field, sfx.len(), l, base.0.number, base.0.message, a.number, a.message),
                replay(sfx),
            );
        }
    }
    // attributes against the frame's own bytes
    if base.0.frame_len != f.len() || base.0.data != f[3..3 + l] || base.0.frame_data != f {
        ctx.violation("C13.attrs_of_own_bytes".into(), "C13.attrs_of_own_bytes", format!("attributes do not describe the frame's own bytes, L={}", l), replay(&[]));
    }
    if ctx.want_sample() && ctx.evaluations % 211 == 0 {
        ctx.sample(|| json!({"frame": hex_short(f), "L": l, "suffix_lengths": suffixes.iter().map(|s| s.len()).collect::<Vec<_>>(), "message_number": base.0.number, "decoded": base.0.message}));
    }
}

/// suffixes that make the whole slice 65536*k + r bytes long with r below, at and just above
/// the frame length (where a length kept in 16 bits would wrap)
fn huge_suffixes(rng: &mut Rng, frame_len: usize) -> Vec<Vec<u8>> {
    let k = rng.range(1, 3) as usize;
    let r1 = rng.usize_below(frame_len);
    let mut out = Vec::new();
    for total in [65_536 * k + r1, 65_536 * k + frame_len, 65_536 * k, 65_536 + rng.usize_below(140_000)] {
        if total > frame_len {
            out.push(rng.bytes(total - frame_len));
        }
    }
    out
}

/// the frame directly after a near copy of itself (one payload bit different, checksum
/// recomputed), both pulled from one iterator: what the second frame decodes to must be what it
/// decodes to alone (nothing may be remembered from the frame before)
fn c13_after_near_copy(ctx: &mut Ctx, rng: &mut Rng, f: &[u8]) {
    let l = f.len() - 6;
    if l < 3 {
        return;
    }
    ctx.eval();
    let mut near = f.to_vec();
    let pos = 24 + 12 + rng.usize_below(l * 8 - 12);
    bits::flip_bit(&mut near, pos);
    crc::fix_crc(&mut near);
    let mut buf = near.clone();
    buf.extend_from_slice(f);
    let alone = match attrs_of(f) {
        Ok(Some(x)) => x,
        _ => return,
    };
    let r = guard(|| {
        let mut it = MsgFrameIter::new(&buf);
        let a = (&mut it).next().map(|fr| fr.get_message());
        let b = (&mut it).next().map(|fr| (fr.message_number(), fr.data().to_vec(), fr.crc(), fr.get_message()));
        (a.is_some(), b)
    });
    ctx.count("frames_decoded_after_a_near_copy");
    match r {
        Ok((true, Some((num, data, crcv, m)))) => {
            if num != alone.0.number || data != alone.0.data || crcv != alone.0.crc || m != alone.1 {
                ctx.violation(
                    format!("C13.independent_of_previous_frame|{}", if m != alone.1 { "decoded_message" } else { "accessors" }),
                    "C13.independent_of_previous_frame",
                    format!("frame decodes differently directly after a near copy of itself (bit {} differs): alone {}, after the near copy {}", pos, alone.0.message, msg_class(&m)),
                    json!({"kind":"near_copy","hex":hex(f),"near":hex(&near)}),
                );
            }
        }
        Ok(_) => ctx.violation("C13.independent_of_previous_frame|not_delivered".into(), "C13.independent_of_previous_frame", "one of two valid back-to-back frames was not delivered".into(), json!({"kind":"near_copy","hex":hex(f),"near":hex(&near)})),
        Err(_) => ctx.count("panics_left_to_C02"),
    }
}

/// the same frame parsed and decoded twice in a row (and once more after an unrelated frame):
/// identical results every time -- decoding must not remember anything
fn c13_decode_twice(ctx: &mut Ctx, rng: &mut Rng, f: &[u8]) {
    ctx.eval();
    let other = crc::frame(&rng.bytes(20));
    let r = guard(|| {
        let a = MessageFrame::new(f).ok().map(|x| x.get_message());
        let b = MessageFrame::new(f).ok().map(|x| x.get_message());
        let _ = MessageFrame::new(&other).ok().map(|x| x.get_message());
        let c = MessageFrame::new(f).ok().map(|x| x.get_message());
        (a, b, c)
    });
    ctx.count("frames_decoded_repeatedly");
    match r {
        Ok((a, b, c)) => {
            if a != b || a != c {
                let cls = |m: &Option<Message>| m.as_ref().map(msg_class).unwrap_or_else(|| "rejected".into());
                ctx.violation(
                    "C13.decode_is_a_function_of_the_frame".into(),
                    "C13.decode_is_a_function_of_the_frame",
                    format!("the same frame decodes to {} / {} / {} on three consecutive attempts", cls(&a), cls(&b), cls(&c)),
                    json!({"kind":"frame_suffix","hex":hex(f),"suffix":""}),
                );
            }
        }
        Err(_) => ctx.count("panics_left_to_C02"),
    }
}

/// 1029 frames whose byte count announces 1..=8 bytes more than the payload holds, built so that the three checksum
/// bytes are printable ASCII: a decoder that reads the text straight from the caller's buffer would find valid
/// UTF-8 behind the payload -- in the checksum and in whatever follows the frame.
fn c13_text_running_past_the_payload(ctx: &mut Ctx, rng: &mut Rng) {
    let actual = rng.range(0, 40) as usize;
    let extra = rng.range(1, 8) as usize;
    for attempt in 0..400u32 {
        let mut p = vec![0u8; 9 + actual];
        bits::write(&mut p, 0, 12, 1029);
        bits::write(&mut p, 12, 12, rng.below(4096) as u128);
        bits::write(&mut p, 24, 16, (attempt as u128 * 7 + rng.below(60000) as u128) & 0xFFFF);
        bits::write(&mut p, 40, 17, rng.below(86400) as u128);
        bits::write(&mut p, crate::oracle::layout::M1029_CHARS_BIT, 7, ((actual + extra).min(127)) as u128);
        bits::write(&mut p, crate::oracle::layout::M1029_BYTES_BIT, 8, (actual + extra) as u128);
        for b in p[9..].iter_mut() {
            *b = b'A' + (rng.below(26) as u8);
        }
        let f = crc::frame(&p);
        let n = f.len();
        if f[n - 3..].iter().all(|b| (0x20..0x7F).contains(b)) {
            ctx.count("text_frames_announcing_more_bytes_than_present_with_printable_checksum");
            let mut sfx: Vec<Vec<u8>> = vec![b"Y?k$G CONTINUES HERE".to_vec(), b"abcdefgh".to_vec(), vec![b'z'; 5], vec![0xC3, 0xA9, 0xC3, 0xA9, 0xC3, 0xA9, 0xC3, 0xA9]];
            let pl = rng.usize_below(12);
            let q = rng.bytes(pl);
            sfx.push(crc::frame(&q));
            let mut t = b"12345".to_vec();
            t.extend(crc::frame(&q));
            sfx.push(t);
            c13_check(ctx, &f, &sfx, "text_frames_announcing_more_bytes_than_present");
            return;
        }
    }
}

/// frames whose own checksum bytes read like the start of another frame (d3 0x yy, zz d3 0x, .. .. d3): what
/// follows such a frame -- nothing, one byte, two bytes -- must not change what is reported about it
fn c13_checksum_reads_like_a_header(ctx: &mut Ctx, rng: &mut Rng) {
    let l = rng.range(3, 200) as usize;
    let mut payload = rng.bytes(l);
    if rng.bool() {
        let n = *rng.pick(gen::supported_numbers());
        bits::write(&mut payload, 0, 12, n as u128);
    }
    let target: u32 = match rng.below(3) {
        0 => 0xD3_0000 | (rng.below(4) as u32) << 8 | rng.below(256) as u32,
        1 => (rng.below(256) as u32) << 16 | 0xD300 | rng.below(4) as u32,
        _ => (rng.below(65536) as u32) << 8 | 0xD3,
    };
    let mut pre = vec![0xD3u8, ((l >> 8) & 3) as u8, l as u8];
    pre.extend_from_slice(&payload[..l - 3]);
    let tail = crc::solve_tail(&pre, target);
    payload[l - 3..].copy_from_slice(&tail);
    let f = crc::frame(&payload);
    let n = f.len();
    if ((f[n - 3] as u32) << 16 | (f[n - 2] as u32) << 8 | f[n - 1] as u32) != target {
        ctx.count("checksum_construction_failed");
        return;
    }
    ctx.count("frames_whose_checksum_reads_like_a_header");
    let sfx: Vec<Vec<u8>> = vec![vec![0x00], vec![0x03], vec![rng.u8()], vec![0x00, 0x00], vec![0x01, rng.u8()], vec![rng.u8(), rng.u8()], vec![0, 0, 0], rng.bytes(7)];
    c13_check(ctx, &f, &sfx, "frames_whose_checksum_reads_like_a_header");
}

fn suffix_set(rng: &mut Rng) -> Vec<Vec<u8>> {
    let mut v: Vec<Vec<u8>> = Vec::new();
    v.push(vec![rng.u8()]);
    v.push(vec![0x3E, 0xD0]); // would read as number 1005 if taken for payload
    v.push(rng.bytes(2));
    let n = rng.range(3, 2000) as usize;
    v.push(rng.bytes(n));
    let pl = rng.usize_below(30);
    let p = rng.bytes(pl);
    v.push(crc::frame(&p));
    v.push(vec![0xD3, 0x00]);
    // the first 1..5 bytes of a following frame
    {
        let pl = rng.usize_below(30);
        let p = rng.bytes(pl);
        let nf = crc::frame(&p);
        let k = rng.range(1, 5) as usize;
        v.push(nf[..k.min(nf.len())].to_vec());
        v.push(vec![0xD3, rng.u8()]);
    }
    v.push(vec![0xD3; 7]);
    v.push(vec![0xFF; 9]);
    v.push(vec![0x00; 5]);
    // what real links put between frames: line ends, other protocols' sync bytes, text -- alone, followed by a
    // preamble byte and followed by a whole frame
    const DELIMITERS: [&[u8]; 14] = [b"\r\n", b"\n", b"\r", b"\r\n\r\n", b"\n\r", b"$GPGGA,", b"*5C\r\n", &[0xB5, 0x62], &[0x24, 0x40], &[0x02], &[0x03], &[0x10, 0x03], &[0x7E], b"ICY 200 OK\r\n"];
    let d = *rng.pick(&DELIMITERS);
    v.push(d.to_vec());
    let mut w = d.to_vec();
    w.push(0xD3);
    v.push(w);
    let mut w = d.to_vec();
    let pl = rng.usize_below(12);
    let p = rng.bytes(pl);
    w.extend(crc::frame(&p));
    v.push(w);
    // short suffixes drawn from the bytes protocols treat specially
    const SPECIAL: [u8; 12] = [0x0D, 0x0A, 0x00, 0xFF, 0xD3, 0x24, 0x2A, 0x7E, 0x02, 0x03, 0x10, 0x1A];
    let k = rng.range(1, 3) as usize;
    v.push((0..k).map(|_| *rng.pick(&SPECIAL)).collect());
    v
}

pub fn c13(p: &Params) -> Outcome {
    let seed = p.seed;
    let thorough = p.thorough;
    let nums: Vec<u16> = gen::supported_numbers().to_vec();
    let n_typed = nums.len() * if thorough { 20000 } else { 1000 };
    let mut total = par::run_queue(p.workers, 1024 + n_typed, move |i, ctx| {
        let mut rng = Rng::derive(seed, "C13", i as u64);
        if i < 1024 {
            let l = i;
            let reps = if thorough { 1000 } else { 40 };
            for k in 0..reps {
                let mut payload = payload_kind(&mut rng, l, k % 3);
                if l >= 2 && k % 2 == 1 {
                    // a supported number in front so that the decoder runs on it
                    let n = *rng.pick(&nums);
                    bits::write(&mut payload, 0, 12, n as u128);
                }
                // reserved header bits: zero, or any of the 63 other settings (every one of them
                // for the shortest payloads)
                let res: u8 = if l < 4 { ((k * 13 + l * 7) % 64) as u8 } else if k % 3 == 1 { rng.range(1, 63) as u8 } else { 0 };
                if res != 0 {
                    ctx.count("frames_with_reserved_bits_set");
                }
                let f = crc::frame_with_reserved(&payload, res);
                let mut sfx = suffix_set(&mut rng);
                if k == 0 || (l < 8 && k < 6) {
                    sfx.extend(huge_suffixes(&mut rng, f.len()));
                    ctx.count("frames_with_suffixes_beyond_64KiB");
                }
                c13_check(ctx, &f, &sfx, "synthetic_frames");
            }
        } else {
            let n = nums[(i - 1024) % nums.len()];
            let f = if rng.bool() { gen::lib_frame(n, &mut rng) } else { Some(gen::wire_frame(&mut rng, n).0) };
            if let Some(f) = f {
                let mut sfx = suffix_set(&mut rng);
                if i % 16 == 0 {
                    sfx.extend(huge_suffixes(&mut rng, f.len()));
                    ctx.count("frames_with_suffixes_beyond_64KiB");
                }
                c13_check(ctx, &f, &sfx, "typed_frames");
                if i % 8 == 3 {
                    c13_text_running_past_the_payload(ctx, &mut rng);
                }
                if i % 8 == 5 {
                    c13_checksum_reads_like_a_header(ctx, &mut rng);
                }
                c13_after_near_copy(ctx, &mut rng, &f);
                c13_decode_twice(ctx, &mut rng, &f);
            }
        }
    });
    total.exhaustive_parts.push("payload length L in 0..=1023 (every value)".into());
    if total.get("frames_with_L_lt_2_checked") == 0 {
        total.inconclusive("no frame with L < 2 observed".into());
    }
    Outcome {
        ctx: total,
        rule: "every L in 0..=1023 and frames of every message type x suffixes {1 byte, 2 bytes, 3..2000 random, another frame, 0xD3.., 0xFF.., zeros, line ends / foreign sync bytes / text alone, before a preamble byte and before a frame, 1..3 special bytes}, plus 1029 frames announcing more text bytes than present (printable checksum) followed by text; oracle = all accessors and the decoded message equal those of the frame alone, number = first 12 payload bits iff L >= 2; non-trivial = non-empty suffix; distinct by (frame, suffix) hash".into(),
        exhaustive: false,
        extra: json!({}),
    }
}


// ------------------------------------------------------------------------------------
// Stack discipline (C02, C05): the monitors above run on 256 MB worker stacks, which would hide a scanner or
// decoder whose stack use grows with its input.  This stage runs in a child process of ./check, on a thread with
// the platform's default stack (2 MiB for spawned Rust threads -- what a user's thread has).  A stack overflow
// kills the child (SIGABRT / SIGSEGV, "has overflowed its stack"); ./check turns exactly that into a violation.
// The child prints "CASE <name>" before each case so that the driver knows which input was being processed.
// ------------------------------------------------------------------------------------

pub const STACK_CASES: [&str; 12] = [
    "preamble_bytes_64k",
    "preamble_bytes_300k",
    "tiny_damaged_frames_20k",
    "tiny_damaged_frames_300k",
    "empty_frames_wrong_checksum_500k",
    "noise_4MiB",
    "noise_24MiB",
    "damaged_copies_100k",
    "valid_frames_8MiB",
    "flood_streams",
    "decode_every_type",
    "decode_hostile_frames",
];

fn stack_case_buffer(name: &str, rng: &mut Rng) -> Vec<u8> {
    let tail = |s: &mut Vec<u8>, rng: &mut Rng| {
        for _ in 0..3 {
            let l = rng.usize_below(60);
            let p = rng.bytes(l);
            s.extend(crc::frame(&p));
        }
    };
    let mut s: Vec<u8> = Vec::new();
    match name {
        "preamble_bytes_64k" => s.extend(std::iter::repeat(0xD3u8).take(65_536)),
        "preamble_bytes_300k" => s.extend(std::iter::repeat(0xD3u8).take(300_000)),
        "tiny_damaged_frames_20k" | "tiny_damaged_frames_300k" => {
            let n = if name.ends_with("20k") { 20_000 } else { 300_000 };
            for i in 0..n {
                let p = [i as u8];
                let mut f = crc::frame(&p[..(i % 2)]);
                let k = f.len() - 1;
                f[k] ^= 0x10;
                s.extend(f);
            }
        }
        "empty_frames_wrong_checksum_500k" => {
            for i in 0..500_000u32 {
                s.extend_from_slice(&[0xD3, 0, 0, 0xFF, i as u8, 1]);
            }
        }
        "noise_4MiB" => s = rng.bytes(4 << 20),
        "noise_24MiB" => s = rng.bytes(24 << 20),
        "damaged_copies_100k" => {
            let p = rng.bytes(19);
            let f = crc::frame(&p);
            for i in 0..100_000usize {
                let mut g = f.clone();
                let b = 24 + (i * 7) % (g.len() * 8 - 24);
                g[b / 8] ^= 0x80 >> (b % 8);
                s.extend(g);
            }
        }
        "valid_frames_8MiB" => {
            while s.len() < (8 << 20) {
                let l = rng.usize_below(200);
                let p = rng.bytes(l);
                s.extend(crc::frame(&p));
            }
        }
        _ => {}
    }
    tail(&mut s, rng);
    s
}

/// library scan of a whole buffer: (frames delivered, total consumed) via the iterator, and the same through
/// repeated next_msg_frame calls
fn lib_scan_counts(buf: &[u8]) -> ((usize, usize), (usize, usize)) {
    let mut it = MsgFrameIter::new(buf);
    let mut n = 0usize;
    while let Some(_f) = (&mut it).next() {
        n += 1;
        if n > buf.len() {
            break;
        }
    }
    let a = (n, it.consumed());
    let mut idx = 0usize;
    let mut m = 0usize;
    while idx < buf.len() {
        let (c, f) = next_msg_frame(&buf[idx..]);
        idx += c;
        if f.is_none() {
            break;
        }
        m += 1;
    }
    (a, (m, idx))
}

pub fn stack_probe(p: &Params, only: Option<&str>) -> Outcome {
    use std::io::Write;
    let seed = p.seed;
    let prop = p.prop.clone();
    let only = only.map(|s| s.to_string());
    // the case being run and when it started: the main thread watches it (a library change that makes
    // scanning spin forever would otherwise keep this stage alive until the driver's 30-minute limit)
    let current: std::sync::Arc<std::sync::Mutex<(String, std::time::Instant)>> = std::sync::Arc::new(std::sync::Mutex::new((String::new(), std::time::Instant::now())));
    let cur2 = current.clone();
    // NOTE: no stack_size() here on purpose: the platform default for spawned threads
    let h = std::thread::Builder::new().name("default-stack".into()).spawn(move || {
        let mut ctx = Ctx::new(0);
        for name in STACK_CASES.iter() {
            if let Some(o) = &only {
                if o != name {
                    continue;
                }
            }
            if let Ok(mut g) = cur2.lock() {
                *g = (name.to_string(), std::time::Instant::now());
            }
            eprintln!("CASE {}", name);
            let _ = std::io::stderr().flush();
            let mut rng = Rng::derive(seed, "stack", crate::rng::hash_bytes(name.as_bytes()));
            let rp = json!({"kind":"stack_probe","case":name,"seed":seed});
            match *name {
                "decode_every_type" | "decode_hostile_frames" => {
                    for &n in gen::supported_numbers() {
                        let mut frames: Vec<Vec<u8>> = Vec::new();
                        if *name == "decode_every_type" {
                            for _ in 0..3 {
                                if let Some(f) = gen::lib_frame(n, &mut rng) {
                                    frames.push(f);
                                }
                            }
                            let mut ones = vec![0xFFu8; 1023];
                            bits::write(&mut ones, 0, 12, n as u128);
                            frames.push(crc::frame(&ones));
                            let mut z = vec![0u8; 1023];
                            bits::write(&mut z, 0, 12, n as u128);
                            frames.push(crc::frame(&z));
                        } else {
                            for _ in 0..40 {
                                frames.push(gen::wire_frame(&mut rng, n).0);
                            }
                        }
                        for f in frames {
                            ctx.eval();
                            ctx.nontrivial(hash_bytes(&f));
                            let r = guard(|| {
                                let mut it = MsgFrameIter::new(&f);
                                let mut k = 0usize;
                                while let Some(fr) = (&mut it).next() {
                                    let m = fr.get_message();
                                    std::hint::black_box(&m);
                                    k += 1;
                                }
                                k
                            });
                            match r {
                                Ok(_) => ctx.count("frames_decoded_on_a_default_stack"),
                                Err(_) => ctx.count("decode_panics_left_to_the_main_monitor"),
                            }
                        }
                    }
                }
                "flood_streams" => {
                    for _ in 0..200 {
                        let (buf, kind) = gen::flood_stream(&mut rng);
                        stack_scan_case(&mut ctx, &prop, &buf, kind, &rp);
                    }
                }
                _ => {
                    let buf = stack_case_buffer(name, &mut rng);
                    stack_scan_case(&mut ctx, &prop, &buf, name, &rp);
                }
            }
            ctx.count("stack_cases_completed");
        }
        ctx
    });
    // wall-clock suspicion only; the driver decides on CPU time by re-executing the one case
    let limit_s: u64 = std::env::var("VERIF_STACK_CASE_LIMIT_S").ok().and_then(|v| v.parse().ok()).unwrap_or(240);
    if let Ok(hh) = &h {
        while !hh.is_finished() {
            std::thread::sleep(std::time::Duration::from_millis(200));
            let (name, t0) = current.lock().map(|g| g.clone()).unwrap_or((String::new(), std::time::Instant::now()));
            if !name.is_empty() && t0.elapsed().as_secs() >= limit_s && !hh.is_finished() {
                let root = std::env::var("VERIF_ROOT").unwrap_or_else(|_| ".".into());
                let path = format!("{}/target/hang-suspect-{}.json", root, std::process::id());
                let _ = std::fs::write(&path, serde_json::to_string(&json!({"kind":"stack_probe","case":name,"seed":seed})).unwrap_or_default());
                eprintln!("HANG-SUSPECT {}", path);
                std::process::exit(3);
            }
        }
    }
    let ctx = match h.map(|h| h.join()) {
        Ok(Ok(c)) => c,
        _ => {
            let mut c = Ctx::new(0);
            c.inconclusive("the default-stack thread could not be started or joined".into());
            c
        }
    };
    Outcome {
        ctx,
        rule: "stack discipline: floods of dead candidates (64 KiB..24 MiB), long valid streams and frames of every type are scanned and decoded on a thread with the platform's default stack in a child process; oracle: the process survives (a stack overflow kills it) and frame count / consumed total equal the reference scanner's".into(),
        exhaustive: false,
        extra: json!({}),
    }
}

fn stack_scan_case(ctx: &mut Ctx, prop: &str, buf: &[u8], kind: &'static str, rp: &Value) {
    ctx.eval();
    ctx.nontrivial(hash_bytes(buf));
    ctx.count(kind);
    ctx.max("largest_buffer_scanned_on_a_default_stack_bytes", buf.len() as f64);
    let (rf, rtot) = scan_all(buf);
    match guard(|| lib_scan_counts(buf)) {
        Err(p) => ctx.panic_violation(&format!("{}.no_panic", prop), &p, "scanning on a default-size stack", rp.clone()),
        Ok((a, b)) => {
            if a != (rf.len(), rtot) || b != (rf.len(), rtot) {
                ctx.violation(
                    format!("{}.scan_of_large_buffer|{}", prop, kind),
                    &format!("{}.scan_of_large_buffer", prop),
                    format!("buffer of {} bytes ({}): iterator delivered {} frames / consumed {}, repeated next_msg_frame {} / {}, reference scanner {} / {}", buf.len(), kind, a.0, a.1, b.0, b.1, rf.len(), rtot),
                    rp.clone(),
                );
            }
        }
    }
}

// ------------------------------------------------------------------------------------
// replay
// ------------------------------------------------------------------------------------

pub fn replay(p: &Params, v: &Value) -> Outcome {
    let mut ctx = Ctx::new(0);
    let kind = v["kind"].as_str().unwrap_or("");
    let bytes = unhex(v["hex"].as_str().unwrap_or(""));
    if kind == "stack_probe" {
        let mut q = Params { prop: p.prop.clone(), thorough: p.thorough, seed: v["seed"].as_u64().unwrap_or(p.seed), profile: p.profile.clone(), workers: p.workers };
        q.seed = v["seed"].as_u64().unwrap_or(p.seed);
        return stack_probe(&q, v["case"].as_str());
    }
    match (p.prop.as_str(), kind) {
        ("C03", "slice") => c03_check(&mut ctx, &bytes, "replay"),
        ("C04", "damaged") => c04_observe(&mut ctx, &bytes, "replay", || json!("replayed damaged frame")),
        ("C04", "valid_then_damaged") => {
            let valid = unhex(v["valid"].as_str().unwrap_or(""));
            c04_after_copy(&mut ctx, &valid, &bytes, "replay", || json!("replayed"));
        }
        ("C04", "run_of_damaged") => {
            let parts: Vec<Vec<u8>> = v["parts"].as_array().map(|a| a.iter().map(|x| unhex(x.as_str().unwrap_or(""))).collect()).unwrap_or_default();
            let refs: Vec<&[u8]> = parts.iter().map(|p| &p[..]).collect();
            c04_run_of_damaged(&mut ctx, &refs, || json!("replayed"));
        }
        ("C05", "buffer") => c05_check(&mut ctx, &bytes, 0),
        ("C06", "stream_schedule") => {
            let cuts: Vec<usize> = v["cuts"].as_array().map(|a| a.iter().filter_map(|x| x.as_u64().map(|y| y as usize)).collect()).unwrap_or_default();
            let whole = feed(&bytes, &[]).map(|(f, t, _)| (f, t)).unwrap_or((vec![], 0));
            let (rf, _) = scan_all(&bytes);
            c06_case(&mut ctx, &bytes, &cuts, "replay", &whole, &rf);
        }
        ("C13", "frame_suffix") => {
            let sfx = unhex(v["suffix"].as_str().unwrap_or(""));
            c13_check(&mut ctx, &bytes, &[sfx], "replay");
        }
        _ => ctx.inconclusive(format!("replay kind {} not understood for {}", kind, p.prop)),
    }
    Outcome { ctx, rule: "replay of one recorded case".into(), exhaustive: false, extra: json!({}) }
}
