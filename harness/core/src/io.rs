//! Guarded entry points into the library used by several monitors.

use crate::mon::{guard, PanicEv};
use rtcm_rs::prelude::*;

pub fn build(m: &Message) -> Result<Result<Vec<u8>, String>, PanicEv> {
    guard(|| {
        let mut b = MessageBuilder::new();
        match b.build_message(m) {
            Ok(f) => Ok(f.to_vec()),
            Err(e) => Err(format!("{:?}", e)),
        }
    })
}

/// decode a frame that must be accepted; None if the frame itself is rejected
pub fn decode(frame: &[u8]) -> Result<Option<Message>, PanicEv> {
    guard(|| match MessageFrame::new(frame) {
        Ok(f) => Some(f.get_message()),
        Err(_) => None,
    })
}

pub fn is_typed(m: &Message) -> bool {
    m.number().is_some()
}
