//! Parallel runner: N worker threads with large stacks (the Message enum is big and lives
//! on the stack), each with its own Ctx, merged at the end.

use crate::mon::Ctx;
use std::sync::atomic::{AtomicUsize, Ordering};
use std::sync::Arc;

pub fn workers() -> usize {
    std::env::var("VERIF_WORKERS")
        .ok()
        .and_then(|s| s.parse().ok())
        .unwrap_or(16)
}

/// Run `f(worker_index, nworkers, ctx)` on every worker; merge.
pub fn run<F>(n: usize, f: F) -> Ctx
where
    F: Fn(usize, usize, &mut Ctx) + Send + Sync + 'static,
{
    let f = Arc::new(f);
    let mut handles = Vec::new();
    for w in 0..n {
        let f = f.clone();
        let h = std::thread::Builder::new()
            .name(format!("w{}", w))
            .stack_size(256 << 20)
            .spawn(move || {
                let mut ctx = Ctx::new(w);
                match crate::mon::guard(|| f(w, n, &mut ctx)) {
                    Ok(()) => {}
                    Err(p) => ctx.inconclusive(format!(
                        "harness panic outside a guarded library call at {}: {}",
                        p.site, p.msg
                    )),
                }
                ctx
            })
            .expect("spawn");
        handles.push(h);
    }
    let mut total = Ctx::new(usize::MAX);
    for h in handles {
        match h.join() {
            Ok(c) => total.merge(c),
            Err(_) => total.inconclusive("worker thread died".into()),
        }
    }
    total
}

/// Dynamic work queue over items 0..n_items: each worker pulls the next index.
pub fn run_queue<F>(n: usize, n_items: usize, f: F) -> Ctx
where
    F: Fn(usize, &mut Ctx) + Send + Sync + 'static,
{
    let next = Arc::new(AtomicUsize::new(0));
    run(n, move |_w, _n, ctx| loop {
        let i = next.fetch_add(1, Ordering::Relaxed);
        if i >= n_items {
            break;
        }
        f(i, ctx);
    })
}
