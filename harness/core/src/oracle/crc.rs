//! CRC-24Q reference: generator 0x1864CFB, zero initial value, no reflection, no final xor.
//! Bit-at-a-time on purpose (no table shared with anybody).

pub fn crc24q(data: &[u8]) -> u32 {
    let mut crc: u32 = 0;
    for &b in data {
        crc ^= (b as u32) << 16;
        for _ in 0..8 {
            crc <<= 1;
            if crc & 0x0100_0000 != 0 {
                crc ^= 0x0186_4CFB;
            }
        }
    }
    crc & 0x00FF_FFFF
}

/// Self-check against the published check value for "123456789".
pub fn self_check() -> bool {
    crc24q(b"123456789") == 0xCDE703 && crc24q(b"") == 0
}

/// Build a frame around a payload (payload.len() <= 1023), reserved bits given.
pub fn frame_with_reserved(payload: &[u8], reserved6: u8) -> Vec<u8> {
    assert!(payload.len() <= 1023);
    let mut f = Vec::with_capacity(payload.len() + 6);
    f.push(0xD3);
    f.push(((reserved6 & 0x3F) << 2) | ((payload.len() >> 8) as u8 & 3));
    f.push((payload.len() & 0xFF) as u8);
    f.extend_from_slice(payload);
    let c = crc24q(&f);
    f.push((c >> 16) as u8);
    f.push((c >> 8) as u8);
    f.push(c as u8);
    f
}

pub fn frame(payload: &[u8]) -> Vec<u8> {
    frame_with_reserved(payload, 0)
}

/// Recompute the trailing checksum of a frame-shaped buffer in place.
pub fn fix_crc(f: &mut [u8]) {
    let n = f.len();
    if n < 6 {
        return;
    }
    let c = crc24q(&f[..n - 3]);
    f[n - 3] = (c >> 16) as u8;
    f[n - 2] = (c >> 8) as u8;
    f[n - 1] = c as u8;
}

/// The three bytes which, appended to `prefix`, make the CRC-24Q of the whole equal `target` (feeding 24 bits X
/// turns the register r into ((r ^ X) * x^24) mod P; the 24 shift steps are undone on the target).
pub fn solve_tail(prefix: &[u8], target: u32) -> [u8; 3] {
    let r = crc24q(prefix);
    let mut y = target & 0xFF_FFFF;
    for _ in 0..24 {
        y = if y & 1 == 1 { ((y ^ 0x864CFB) >> 1) | 0x80_0000 } else { y >> 1 };
    }
    let x = r ^ y;
    [(x >> 16) as u8, (x >> 8) as u8, x as u8]
}
