//! Reference acceptance predicate and reference scanner, worded as properties C03/C05.

use super::crc::crc24q;

#[derive(Clone, Copy, Debug, PartialEq, Eq)]
pub enum Class {
    /// accepted, payload length L
    Accept(usize),
    Incomplete,
    NotValid,
    /// the property only forbids acceptance (slice shorter than 6 bytes that does not
    /// start with 0xD3, including the empty slice): either rejection kind is fine
    RejectEither,
}

pub fn classify(s: &[u8]) -> Class {
    if s.is_empty() || s[0] != 0xD3 {
        if s.len() < 6 {
            return Class::RejectEither;
        }
        return Class::NotValid;
    }
    if s.len() < 3 {
        // starts with 0xD3 but the length field is not even there: shorter than any extent
        return Class::Incomplete;
    }
    let l = (((s[1] & 0x03) as usize) << 8) | s[2] as usize;
    if s.len() < l + 6 {
        return Class::Incomplete;
    }
    let c = crc24q(&s[..l + 3]);
    let t = ((s[l + 3] as u32) << 16) | ((s[l + 4] as u32) << 8) | s[l + 5] as u32;
    if c == t {
        Class::Accept(l)
    } else {
        Class::NotValid
    }
}

/// Reference scanner: returns (consumed, Some((start, end))) for the earliest 0xD3 position
/// that is complete and valid, unless an earlier 0xD3 starts a still-incomplete candidate,
/// in which case (that position, None); with neither, (len, None).
pub fn scan(buf: &[u8]) -> (usize, Option<(usize, usize)>) {
    for i in 0..buf.len() {
        if buf[i] != 0xD3 {
            continue;
        }
        match classify(&buf[i..]) {
            Class::Accept(l) => return (i + l + 6, Some((i, i + l + 6))),
            Class::Incomplete => return (i, None),
            _ => {}
        }
    }
    (buf.len(), None)
}

/// All frames the reference finds by repeated scanning, and the total consumed.
pub fn scan_all(buf: &[u8]) -> (Vec<(usize, usize)>, usize) {
    let mut out = Vec::new();
    let mut idx = 0;
    while idx < buf.len() {
        let (c, f) = scan(&buf[idx..]);
        if let Some((s, e)) = f {
            out.push((idx + s, idx + e));
        }
        idx += c;
        if f.is_none() {
            break;
        }
    }
    (out, idx)
}
