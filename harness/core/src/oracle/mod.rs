//! Reference models, written independently of the library.
pub mod bits;
pub mod crc;
pub mod frame;
pub mod layout;
pub mod msm;
pub mod sig;
