//! LayoutRef: pinned wire constants (payload bit 0 = first bit of the message number),
//! typed in from the RTCM 10403.x message tables (DESIGN.md appendix A).  These are
//! constants of the harness; they are never derived from the tree at run time.

#[derive(Clone, Copy, Debug)]
pub struct ListLayout {
    pub number: u16,
    /// bit position and width of the element count
    pub count_bit: usize,
    pub count_width: usize,
    /// bit position of the first element
    pub elems_bit: usize,
    pub elem_bits: usize,
    pub capacity: usize,
}

const fn l(number: u16, count_bit: usize, count_width: usize, elems_bit: usize, elem_bits: usize, capacity: usize) -> ListLayout {
    ListLayout { number, count_bit, count_width, elems_bit, elem_bits, capacity }
}

pub const LISTS: &[ListLayout] = &[
    l(1001, 55, 5, 64, 58, 31),
    l(1002, 55, 5, 64, 74, 31),
    l(1003, 55, 5, 64, 101, 31),
    l(1004, 55, 5, 64, 125, 31),
    l(1009, 52, 5, 61, 64, 31),
    l(1010, 52, 5, 61, 79, 31),
    l(1011, 52, 5, 61, 107, 31),
    l(1012, 52, 5, 61, 130, 31),
    l(1013, 57, 5, 70, 29, 31),
    l(1015, 72, 4, 76, 28, 15),
    l(1016, 72, 4, 76, 36, 15),
    l(1017, 72, 4, 76, 53, 15),
    l(1037, 69, 4, 73, 28, 15),
    l(1038, 69, 4, 73, 36, 15),
    l(1039, 69, 4, 73, 53, 15),
    l(1030, 51, 5, 56, 49, 31),
    l(1031, 48, 5, 53, 49, 31),
    l(1034, 44, 5, 49, 66, 31),
    l(1035, 41, 5, 46, 66, 31),
    l(1057, 62, 6, 68, 135, 60),
    l(1063, 59, 6, 65, 134, 60),
    l(1058, 61, 6, 67, 76, 63),
    l(1064, 58, 6, 64, 75, 63),
    l(1060, 62, 6, 68, 205, 39),
    l(1066, 59, 6, 65, 204, 39),
    l(1061, 61, 6, 67, 12, 63),
    l(1067, 58, 6, 64, 11, 63),
    l(1062, 61, 6, 67, 28, 63),
    l(1068, 58, 6, 64, 27, 63),
    l(1303, 51, 5, 56, 49, 31),
    l(1304, 51, 5, 56, 49, 31),
];

pub fn list_layout(n: u16) -> Option<&'static ListLayout> {
    LISTS.iter().find(|x| x.number == n)
}

/// Messages whose first string has an 8-bit length at payload bit 24 (capacity 31).
pub const STR8_AT_24: &[u16] = &[1007, 1008, 1033];
/// Messages whose first string has a 5-bit length at payload bit 12 (capacity 31 = field max).
pub const STR5_AT_12: &[u16] = &[1021, 1022, 1300, 1301, 1302];
pub const DESC_CAP: usize = 31;

/// MSM: header is 73 bits for all 49 types (12 number + 12 station + 30 epoch + 1 mm +
/// 3 iods + 7 reserved + 2 clk steering + 2 ext clk + 1 smoothing + 3 interval).
pub const MSM_SAT_MASK_BIT: usize = 73;
pub const MSM_SIG_MASK_BIT: usize = 137;
pub const MSM_CELL_MASK_BIT: usize = 169;

/// 1029: 7-bit character count at 57, 8-bit byte count at 64, text from 72.
pub const M1029_CHARS_BIT: usize = 57;
pub const M1029_BYTES_BIT: usize = 64;
pub const M1029_TEXT_BIT: usize = 72;

/// 1059 / 1065: 6-bit satellite count at 61 / 58; then per satellite id (6 / 5 bits),
/// 5-bit bias count, per bias 5-bit signal + 14-bit value.
pub const M1059_COUNT_BIT: usize = 61;
pub const M1065_COUNT_BIT: usize = 58;
pub const BIAS_CONTAINER_CAP: usize = 390;

/// 1230 (as implemented by this library; see DESIGN.md "out of scope"): 12 number + 12
/// station + 1 indicator, 4-bit signal mask at bit 25, then 16 bits per set bit.
pub const M1230_MASK_BIT: usize = 25;

pub fn is_msm(n: u16) -> bool {
    (1071..=1137).contains(&n) && (1..=7).contains(&(n % 10))
}

/// constellation index for MSM numbers: 0 gps, 1 glo, 2 gal, 3 sbas, 4 qzss, 5 bds, 6 navic
pub fn msm_constellation(n: u16) -> usize {
    ((n - 1071) / 10) as usize
}

pub fn msm_kind(n: u16) -> u16 {
    n % 10
}
