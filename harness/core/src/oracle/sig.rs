//! SigRef: MSM signal tables of RTCM 10403.3 (tables 3.5-91/96/99/102/105/108/108.3) as
//! published in RTKLIB's msm_sig_* arrays (RINEX observation codes), typed in here.
//! Index 0 of each array is signal-mask position 1.

pub const CONSTELLATIONS: [&str; 7] = ["gps", "glo", "gal", "sbas", "qzss", "bds", "navic"];

const GPS: [&str; 32] = [
    "", "1C", "1P", "1W", "", "", "", "2C", "2P", "2W", "", "", //
    "", "", "2S", "2L", "2X", "", "", "", "", "5I", "5Q", "5X", //
    "", "", "", "", "", "1S", "1L", "1X",
];
const GLO: [&str; 32] = [
    "", "1C", "1P", "", "", "", "", "2C", "2P", "", "", "", //
    "", "", "", "", "", "", "", "", "", "", "", "", //
    "", "", "", "", "", "", "", "",
];
const GAL: [&str; 32] = [
    "", "1C", "1A", "1B", "1X", "1Z", "", "6C", "6A", "6B", "6X", "6Z", //
    "", "7I", "7Q", "7X", "", "8I", "8Q", "8X", "", "5I", "5Q", "5X", //
    "", "", "", "", "", "", "", "",
];
const SBAS: [&str; 32] = [
    "", "1C", "", "", "", "", "", "", "", "", "", "", //
    "", "", "", "", "", "", "", "", "", "5I", "5Q", "5X", //
    "", "", "", "", "", "", "", "",
];
const QZSS: [&str; 32] = [
    "", "1C", "", "", "", "", "", "", "6S", "6L", "6X", "", //
    "", "", "2S", "2L", "2X", "", "", "", "", "5I", "5Q", "5X", //
    "", "", "", "", "", "1S", "1L", "1X",
];
const BDS: [&str; 32] = [
    "", "2I", "2Q", "2X", "", "", "", "6I", "6Q", "6X", "", "", //
    "", "7I", "7Q", "7X", "", "", "", "", "", "5D", "5P", "5X", //
    "7D", "", "", "", "", "1D", "1P", "1X",
];
const NAVIC: [&str; 32] = [
    "", "", "", "", "", "", "", "9A", "", "", "", "", //
    "", "", "", "", "", "", "", "", "", "5A", "", "", //
    "", "", "", "", "", "", "", "",
];

pub const TABLES: [&[&str; 32]; 7] = [&GPS, &GLO, &GAL, &SBAS, &QZSS, &BDS, &NAVIC];

/// position (1..=32) -> (band, attribute)
pub fn pos_to_sig(c: usize, pos: u8) -> Option<(u8, char)> {
    if !(1..=32).contains(&pos) {
        return None;
    }
    let s = TABLES[c][pos as usize - 1];
    if s.is_empty() {
        None
    } else {
        let b = s.as_bytes();
        Some((b[0] - b'0', b[1] as char))
    }
}

pub fn sig_to_pos(c: usize, band: u8, attr: char) -> Option<u8> {
    for pos in 1..=32u8 {
        if pos_to_sig(c, pos) == Some((band, attr)) {
            return Some(pos);
        }
    }
    None
}

/// recognised positions of a constellation, ascending
pub fn positions(c: usize) -> Vec<u8> {
    (1..=32u8).filter(|p| pos_to_sig(c, *p).is_some()).collect()
}

/// SSR code-bias signal tables (RTCM 10403.3 tables 3.5-? "GPS/GLONASS signal and tracking
/// mode identifier"), as listed in RTKLIB's ssr_sig_gps / ssr_sig_glo: index -> code.
pub const SSR_GPS: [(u8, u8, char); 12] = [
    (0, 1, 'C'), (1, 1, 'P'), (2, 1, 'W'), (5, 2, 'C'), (6, 2, 'D'), (7, 2, 'S'),
    (8, 2, 'L'), (9, 2, 'X'), (10, 2, 'P'), (11, 2, 'W'), (14, 5, 'I'), (15, 5, 'Q'),
];
pub const SSR_GLO: [(u8, u8, char); 4] = [(0, 1, 'C'), (1, 1, 'P'), (2, 2, 'C'), (3, 2, 'P')];
