//! Reference MSM mask builder: from satellite set S, signal positions G and cells C
//! (pairs (sat, sigpos)), the three masks and the canonical row order.

pub struct MsmRef {
    pub sats: Vec<u8>,          // ascending
    pub sigs: Vec<u8>,          // ascending positions
    pub cells: Vec<(u8, u8)>,   // row-major (sat asc, sig asc), only present cells
    pub sat_mask: u64,          // bit s counted from MSB as 1
    pub sig_mask: u32,
    pub cell_mask_bits: Vec<bool>, // |S|*|G| entries, row-major
}

pub fn msm_ref(s: &[u8], g: &[u8], c: &[(u8, u8)]) -> MsmRef {
    let mut sats: Vec<u8> = s.to_vec();
    sats.sort();
    sats.dedup();
    let mut sigs: Vec<u8> = g.to_vec();
    sigs.sort();
    sigs.dedup();
    let mut sat_mask = 0u64;
    for &x in &sats {
        sat_mask |= 1u64 << (64 - x as u32);
    }
    let mut sig_mask = 0u32;
    for &x in &sigs {
        sig_mask |= 1u32 << (32 - x as u32);
    }
    let mut cell_mask_bits = Vec::new();
    let mut cells = Vec::new();
    for &sa in &sats {
        for &si in &sigs {
            let present = c.iter().any(|&(a, b)| a == sa && b == si);
            cell_mask_bits.push(present);
            if present {
                cells.push((sa, si));
            }
        }
    }
    MsmRef { sats, sigs, cells, sat_mask, sig_mask, cell_mask_bits }
}
