//! Bit-at-a-time MSB-first reference writer/reader (u128 values), and the reference
//! encodings of two's complement and sign-magnitude fields written from the definitions.

#[derive(Clone, Debug, Default)]
pub struct BitBuf {
    pub bytes: Vec<u8>,
    pub nbits: usize,
}

impl BitBuf {
    pub fn new() -> BitBuf {
        BitBuf { bytes: Vec::new(), nbits: 0 }
    }
    pub fn push_bit(&mut self, b: bool) {
        if self.nbits % 8 == 0 {
            self.bytes.push(0);
        }
        if b {
            let i = self.nbits / 8;
            self.bytes[i] |= 0x80 >> (self.nbits % 8);
        }
        self.nbits += 1;
    }
    /// append the low `w` bits of v, most significant first
    pub fn push(&mut self, v: u128, w: usize) {
        for i in (0..w).rev() {
            self.push_bit((v >> i) & 1 == 1);
        }
    }
    pub fn push_bytes(&mut self, b: &[u8]) {
        for &x in b {
            self.push(x as u128, 8);
        }
    }
    /// zero-padded bytes
    pub fn into_bytes(self) -> Vec<u8> {
        self.bytes
    }
}

pub fn get_bit(buf: &[u8], pos: usize) -> bool {
    buf[pos / 8] & (0x80 >> (pos % 8)) != 0
}

pub fn set_bit(buf: &mut [u8], pos: usize, b: bool) {
    if b {
        buf[pos / 8] |= 0x80 >> (pos % 8);
    } else {
        buf[pos / 8] &= !(0x80 >> (pos % 8));
    }
}

pub fn flip_bit(buf: &mut [u8], pos: usize) {
    buf[pos / 8] ^= 0x80 >> (pos % 8);
}

/// read w bits (w <= 128) at bit position pos, MSB first
pub fn read(buf: &[u8], pos: usize, w: usize) -> u128 {
    let mut v: u128 = 0;
    for i in 0..w {
        v = (v << 1) | get_bit(buf, pos + i) as u128;
    }
    v
}

pub fn write(buf: &mut [u8], pos: usize, w: usize, v: u128) {
    for i in 0..w {
        set_bit(buf, pos + i, (v >> (w - 1 - i)) & 1 == 1);
    }
}

fn mask(w: usize) -> u128 {
    if w >= 128 {
        u128::MAX
    } else {
        (1u128 << w) - 1
    }
}

/// two's complement pattern of v in w bits (v must be representable)
pub fn twos_pattern(v: i128, w: usize) -> u128 {
    (v as u128) & mask(w)
}

pub fn twos_value(p: u128, w: usize) -> i128 {
    if w == 0 {
        return 0;
    }
    if (p >> (w - 1)) & 1 == 1 {
        (p as i128) - (1i128 << w)
    } else {
        p as i128
    }
}

/// sign-magnitude pattern: sign bit then w-1 magnitude bits (v must satisfy |v| < 2^(w-1))
pub fn sm_pattern(v: i128, w: usize) -> u128 {
    if v < 0 {
        (1u128 << (w - 1)) | ((-v) as u128 & mask(w - 1))
    } else {
        v as u128 & mask(w - 1)
    }
}

pub fn sm_value(p: u128, w: usize) -> i128 {
    let mag = (p & mask(w - 1)) as i128;
    if (p >> (w - 1)) & 1 == 1 {
        -mag
    } else {
        mag
    }
}

/// Fast variants for fields of at most 64 bits inside a 16-byte buffer (o + w <= 128):
/// one u128 shift instead of a bit loop.  Independent of the library; cross-checked
/// against the bit-at-a-time versions by `self_check_fast`.
#[inline]
pub fn write16(buf: &mut [u8; 16], o: usize, w: usize, v: u64) {
    debug_assert!(w >= 1 && w <= 64 && o + w <= 128);
    let cur = u128::from_be_bytes(*buf);
    let m: u128 = if w == 64 { u64::MAX as u128 } else { (1u128 << w) - 1 };
    let sh = 128 - o - w;
    let new = (cur & !(m << sh)) | (((v as u128) & m) << sh);
    *buf = new.to_be_bytes();
}

#[inline]
pub fn read16(buf: &[u8; 16], o: usize, w: usize) -> u64 {
    debug_assert!(w >= 1 && w <= 64 && o + w <= 128);
    let cur = u128::from_be_bytes(*buf);
    let m: u128 = if w == 64 { u64::MAX as u128 } else { (1u128 << w) - 1 };
    ((cur >> (128 - o - w)) & m) as u64
}

pub fn self_check_fast() -> bool {
    let mut x: u64 = 0x1234_5678_9ABC_DEF0;
    for i in 0..4000u64 {
        x = x.wrapping_mul(6364136223846793005).wrapping_add(1442695040888963407 + i);
        let w = 1 + (x >> 58) as usize % 64;
        let o = ((x >> 20) as usize) % (128 - w + 1);
        let v = x.rotate_left(17);
        let mut a = [0u8; 16];
        for (j, b) in a.iter_mut().enumerate() {
            *b = (x >> (j % 8 * 8)) as u8 ^ (j as u8).wrapping_mul(37);
        }
        let mut b = a;
        write16(&mut a, o, w, v);
        let m: u128 = if w == 64 { u64::MAX as u128 } else { (1u128 << w) - 1 };
        write(&mut b, o, w, v as u128 & m);
        if a != b || read16(&a, o, w) as u128 != read(&b, o, w) || read16(&a, o, w) as u128 != (v as u128 & m) {
            return false;
        }
    }
    true
}
