//! C08: every data field is lossless on its grid and has exactly one 'absent' pattern.
//! Pattern p --(reference bit writer)--> buffer --dfs::X::decode--> value
//!           --dfs::X::encode--> buffer --(reference bit reader)--> p'

use crate::fields::{Dec, FErr, FieldDef, FIELDS, N_FIELDS_SCANNED};
use crate::mon::{guard, Ctx};
use crate::oracle::bits;
use crate::oracle::crc;
use crate::par;
use crate::rng::{mix, Rng};
use crate::{Outcome, Params};
use rtcm_rs::prelude::*;
use serde_json::{json, Value};

const CHUNK_BITS: usize = 24;

fn replay_value(f: &FieldDef, p: u64, o: usize) -> Value {
    json!({"kind":"field_pattern","field":f.id,"pattern":p.to_string(),"offset":o})
}

/// one pattern of one field; returns true if the pattern decoded to 'absent'
#[inline]
pub fn check_pattern(ctx: &mut Ctx, f: &FieldDef, p: u64, o: usize, bgseed: u64, margin: &mut f64) -> bool {
    let w = f.len;
    let mut inb = [0u8; 16];
    let bg = mix(bgseed, p);
    inb[..8].copy_from_slice(&bg.to_le_bytes());
    inb[8..].copy_from_slice(&bg.rotate_left(29).to_le_bytes());
    let mut outb = inb;
    outb.reverse();
    bits::write16(&mut inb, o, w, p);
    let o2 = (o + 3) % (128 - w + 1).min(64);
    let r = guard(|| {
        let d = (f.dec)(&inb, o);
        match d {
            Ok((val, used)) => {
                let e = (f.enc)(&val, &mut outb, o2);
                (Ok((val, used)), Some(e))
            }
            Err(e) => (Err(e), None),
        }
    });
    let (d, e) = match r {
        Ok(x) => x,
        Err(pn) => {
            ctx.panic_violation("C08.no_panic", &pn, &format!("decode/encode of field {} pattern {:#x}", f.id, p), replay_value(f, p, o));
            return false;
        }
    };
    let (val, used) = match d {
        Ok(x) => x,
        Err(er) => {
            ctx.violation(format!("C08.decode_error|{}", f.id), "C08.decode_error", format!("field {} pattern {:#x}: decode failed with {:?}", f.id, p, er), replay_value(f, p, o));
            return false;
        }
    };
    if used != w {
        ctx.violation(format!("C08.width|{}|decode", f.id), "C08.width", format!("field {}: decode consumed {} bits, declared width {}", f.id, used, w), replay_value(f, p, o));
        return false;
    }
    let absent = matches!(val, Dec::Absent);
    if absent && !f.optional() {
        ctx.violation(format!("C08.absent_in_mandatory|{}", f.id), "C08.absent_in_mandatory", format!("field {} pattern {:#x} decoded to absent but the field is not optional", f.id, p), replay_value(f, p, o));
    }
    match val {
        Dec::F32(x) if !x.is_finite() => {
            ctx.violation(format!("C08.finite|{}", f.id), "C08.finite", format!("field {} pattern {:#x} decodes to non-finite {}", f.id, p, x), replay_value(f, p, o));
        }
        Dec::F64(x) if !x.is_finite() => {
            ctx.violation(format!("C08.finite|{}", f.id), "C08.finite", format!("field {} pattern {:#x} decodes to non-finite {}", f.id, p, x), replay_value(f, p, o));
        }
        _ => {}
    }
    match e {
        Some(Ok(wr)) => {
            if wr != w {
                ctx.violation(format!("C08.width|{}|encode", f.id), "C08.width", format!("field {}: encode wrote {} bits, declared width {}", f.id, wr, w), replay_value(f, p, o));
                return absent;
            }
            let back = bits::read16(&outb, o2, w);
            let sign_only = f.is_sm() && p == 1u64 << (w - 1);
            let expect = if sign_only { 0 } else { p };
            if back != expect {
                ctx.violation(
                    format!("C08.roundtrip|{}", f.id),
                    "C08.roundtrip",
                    format!("field {} (dt {}, it {}, len {}, res {:?}): pattern {:#x} decodes to {:?} which encodes to {:#x}", f.id, f.dt, f.it, w, f.res_src, p, val, back),
                    replay_value(f, p, o),
                );
            }
            if sign_only {
                ctx.count("sm_negative_zero_normalised");
            }
        }
        Some(Err(er)) => {
            ctx.violation(
                format!("C08.encode_error|{}|{:?}", f.id, er),
                "C08.encode_error",
                format!("field {}: pattern {:#x} decodes to {:?} which the encoder refuses with {:?}", f.id, p, val, er),
                replay_value(f, p, o),
            );
        }
        None => {}
    }
    // margin monitor (observation only): distance of the decoded value from its grid point
    if let Some(res) = f.res {
        if f.is_float() && !absent {
            let x = match val {
                Dec::F32(x) => x as f64,
                Dec::F64(x) => x,
                _ => 0.0,
            };
            let k = f.pattern_int(p) as f64;
            let m = ((x - f.bias.unwrap_or(0.0)) / res - k).abs();
            if m > *margin {
                *margin = m;
            }
        }
    }
    absent
}

fn absent_encoding(ctx: &mut Ctx, f: &FieldDef) {
    // 'absent' encodes to a pattern that decodes to 'absent'
    let mut outb = [0x5Au8; 16];
    let o = 5;
    let r = guard(|| (f.enc)(&Dec::Absent, &mut outb, o));
    match r {
        Ok(Ok(wr)) => {
            let p = bits::read16(&outb, o, f.len);
            let mut inb = [0xC3u8; 16];
            bits::write16(&mut inb, 9, f.len, p);
            let d = guard(|| (f.dec)(&inb, 9));
            let ok = matches!(d, Ok(Ok((Dec::Absent, _)))) && wr == f.len;
            ctx.count("absent_encodings_checked");
            if !ok {
                ctx.violation(format!("C08.absent_encoding|{}", f.id), "C08.absent_encoding", format!("field {}: 'absent' encodes to {:#x} ({} bits) which decodes to {:?}", f.id, p, wr, d), json!({"kind":"field_absent","field":f.id}));
            }
        }
        other => {
            ctx.violation(format!("C08.absent_encoding|{}", f.id), "C08.absent_encoding", format!("field {}: encoding 'absent' failed: {:?}", f.id, other.map_err(|p| p.msg)), json!({"kind":"field_absent","field":f.id}));
        }
    }
}

fn boundary_patterns(w: usize) -> Vec<u64> {
    let m: u64 = if w == 64 { u64::MAX } else { (1u64 << w) - 1 };
    let mut v: Vec<u64> = vec![0, 1, 2, 3, m, m - 1, m - 2, m >> 1, (m >> 1) + 1, (m >> 1) + 2, (m >> 1) - 1, 0x5555_5555_5555_5555 & m, 0xAAAA_AAAA_AAAA_AAAA & m];
    for i in 0..w {
        let b = 1u64 << i;
        v.push(b);
        v.push(b.wrapping_sub(1) & m);
        v.push((b + 1) & m);
        v.push(m ^ b);
        v.push((1u64 << (w - 1)) | b);
        v.push(((1u64 << (w - 1)) | b).wrapping_sub(1) & m);
    }
    // fields wider than a machine word half: every pattern whose low 32 (and low 16) bits are zero, all ones or one,
    // i.e. the places where a value handled in two words carries from one into the other
    for half in [32usize, 16] {
        if w > half {
            let top = w - half;
            let n: u64 = if top >= 13 { 4096 } else { 1u64 << top };
            for j in 0..n {
                // all high words when there are few, an even spread otherwise
                let hi = if top >= 13 { ((j as u128 * ((1u128 << top) - 1)) / (n as u128 - 1)) as u64 } else { j };
                let base = hi << half;
                v.push(base & m);
                v.push(base.wrapping_sub(1) & m);
                v.push((base + 1) & m);
                v.push((base | ((1u64 << half) - 1)) & m);
            }
        }
    }
    v.sort();
    v.dedup();
    v
}

// ---- hand-written bias codecs through one-entry messages --------------------------------

pub fn bias_frame(number: u16, p: u64, variant: usize) -> Vec<u8> {
    let mut b = bits::BitBuf::new();
    b.push(number as u128, 12);
    match number {
        1059 => {
            b.push(0, 49); // epoch 20, interval 4, mm 1, iod 4, provider 16, solution 4
            b.push(1, 6); // satellites
            b.push((variant % 64) as u128, 6);
            b.push(1, 5);
            let sigs = [0u8, 1, 2, 5, 6, 7, 8, 9, 10, 11, 14, 15];
            b.push(sigs[variant % sigs.len()] as u128, 5);
            b.push(p as u128, 14);
        }
        1065 => {
            b.push(0, 46); // epoch 17 + rest
            b.push(1, 6);
            b.push((variant % 32) as u128, 5);
            b.push(1, 5);
            b.push((variant % 4) as u128, 5);
            b.push(p as u128, 14);
        }
        _ => {
            b.push(0, 13); // station 12, indicator 1
            b.push(1u128 << (variant % 4), 4);
            b.push(p as u128, 16);
        }
    }
    crc::frame(&b.into_bytes())
}

/// One satellite (one mask for 1230) with several biases: neighbouring entries hold the given patterns.
pub fn bias_frame_multi(number: u16, pats: &[u64], variant: usize) -> Vec<u8> {
    let mut b = bits::BitBuf::new();
    b.push(number as u128, 12);
    let k = pats.len();
    match number {
        1059 => {
            b.push(0, 49);
            b.push(1, 6);
            b.push((variant % 64) as u128, 6);
            b.push(k as u128, 5);
            let sigs = [0u8, 1, 2, 5, 6, 7, 8, 9, 10, 11, 14, 15];
            for (i, p) in pats.iter().enumerate() {
                b.push(sigs[i % sigs.len()] as u128, 5);
                b.push(*p as u128, 14);
            }
        }
        1065 => {
            b.push(0, 46);
            b.push(1, 6);
            b.push((variant % 32) as u128, 5);
            b.push(k as u128, 5);
            for (i, p) in pats.iter().enumerate() {
                b.push((i % 4) as u128, 5);
                b.push(*p as u128, 14);
            }
        }
        _ => {
            b.push(0, 13);
            b.push(((0xFu128 << (4 - k.min(4))) & 0xF) as u128, 4);
            for p in pats.iter().take(4) {
                b.push(*p as u128, 16);
            }
        }
    }
    crc::frame(&b.into_bytes())
}

/// Entries that follow each other in one list: each bias must come back as its own pattern whatever its
/// neighbour holds (equal, one step up, one step down, far away).  Added after seeded change C08-R11.
fn check_bias_neighbours(ctx: &mut Ctx, number: u16, pats: &[u64], variant: usize) {
    ctx.eval();
    let f = bias_frame_multi(number, pats, variant);
    let replay = || json!({"kind":"bias_neighbours","number":number,"patterns":pats.iter().map(|p| p.to_string()).collect::<Vec<_>>(),"variant":variant});
    let r = guard(|| {
        let mf = MessageFrame::new(&f).ok()?;
        let m = mf.get_message();
        let mut b = MessageBuilder::new();
        let out = b.build_message(&m).ok().map(|x| x.to_vec());
        Some((crate::framing::msg_class(&m), out))
    });
    match r {
        Err(pn) => ctx.panic_violation("C08.no_panic", &pn, &format!("bias codec of {} patterns {:?}", number, pats), replay()),
        Ok(None) => ctx.violation(format!("C08.bias_frame_rejected|{}", number), "C08.bias_frame_rejected", "reference-built frame rejected".into(), replay()),
        Ok(Some((class, out))) => {
            if out.as_deref() != Some(&f[..]) {
                ctx.violation(
                    format!("C08.bias_roundtrip|{}|neighbouring_entries", number),
                    "C08.bias_roundtrip",
                    format!("message {} with neighbouring bias patterns {:x?}: decoded as {}, re-encoded {:?}, original {}", number, pats, class, out.map(|x| crate::mon::hex(&x)), crate::mon::hex(&f)),
                    replay(),
                );
            }
        }
    }
}

fn check_bias_pattern(ctx: &mut Ctx, number: u16, p: u64, variant: usize) {
    ctx.eval();
    let f = bias_frame(number, p, variant);
    let replay = || json!({"kind":"bias_pattern","number":number,"pattern":p.to_string(),"variant":variant});
    let r = guard(|| {
        let mf = MessageFrame::new(&f).ok()?;
        let m = mf.get_message();
        let mut b = MessageBuilder::new();
        let out = b.build_message(&m).ok().map(|x| x.to_vec());
        Some((crate::framing::msg_class(&m), out))
    });
    match r {
        Err(pn) => ctx.panic_violation("C08.no_panic", &pn, &format!("bias codec of {} pattern {:#x}", number, p), replay()),
        Ok(None) => ctx.violation(format!("C08.bias_frame_rejected|{}", number), "C08.bias_frame_rejected", "reference-built frame rejected".into(), replay()),
        Ok(Some((class, out))) => {
            if out.as_deref() != Some(&f[..]) {
                ctx.violation(
                    format!("C08.bias_roundtrip|{}", number),
                    "C08.bias_roundtrip",
                    format!("message {} bias pattern {:#x}: decoded as {}, re-encoded {:?}, original {}", number, p, class, out.map(|x| crate::mon::hex(&x)), crate::mon::hex(&f)),
                    replay(),
                );
            }
        }
    }
}

/// Several fields written through ONE assembler and read through ONE parser, as in a message body: a field's
/// encoding and decoding may depend on nothing but its own value.  Fields are drawn in related groups (same width
/// and carrier type, different resolution) and neighbouring fields are given equal real values where their grids
/// allow it -- the situations in which state carried from one field to the next would show.
/// seq: (field index, bit pattern)
fn check_field_sequence(ctx: &mut Ctx, seq: &[(usize, u64)], start: usize) {
    use rtcm_rs::verif_hooks::assembler::Assembler;
    use rtcm_rs::verif_hooks::parser::Parser;
    ctx.eval();
    let rp = || json!({"kind":"field_sequence","start":start,"fields":seq.iter().map(|(fi, p)| json!([FIELDS[*fi].id, p.to_string()])).collect::<Vec<_>>()});
    // standalone: what each field does on its own
    let mut alone: Vec<(Dec, u64)> = Vec::with_capacity(seq.len());
    for &(fi, p) in seq {
        let f = &FIELDS[fi];
        let mut b = [0u8; 16];
        bits::write16(&mut b, 5, f.len, p);
        let r = guard(|| {
            let (d, _) = (f.dec)(&b, 5).ok()?;
            let mut o = [0u8; 16];
            (f.enc)(&d, &mut o, 9).ok()?;
            Some((d, bits::read16(&o, 9, f.len)))
        });
        match r {
            Ok(Some(x)) => alone.push(x),
            _ => {
                // refused or panicking on its own: the single-field checks report that
                ctx.count("field_sequences_skipped_standalone_error");
                return;
            }
        }
    }
    let total: usize = seq.iter().map(|(fi, _)| FIELDS[*fi].len).sum();
    let mut buf = vec![0u8; (start + total + 7) / 8 + 1];
    let r = guard(|| {
        let mut asm = Assembler::new(&mut buf[..], start);
        for (i, &(fi, _)) in seq.iter().enumerate() {
            if let Err(e) = (FIELDS[fi].enc_on)(&alone[i].0, &mut asm) {
                return Err(format!("field #{} ({}) refused inside the sequence: {:?}", i, FIELDS[fi].id, e));
            }
        }
        Ok(asm.offset())
    });
    match r {
        Err(p) => {
            ctx.panic_violation("C08.no_panic", &p, "encoding a sequence of fields through one assembler", rp());
            return;
        }
        Ok(Err(why)) => {
            ctx.violation("C08.independent_of_neighbours|encode_status".into(), "C08.independent_of_neighbours", why, rp());
            return;
        }
        Ok(Ok(end)) => {
            if end != start + total {
                ctx.violation("C08.independent_of_neighbours|cursor".into(), "C08.independent_of_neighbours", format!("{} fields of {} bits in total moved the cursor from {} to {}", seq.len(), total, start, end), rp());
                return;
            }
        }
    }
    let mut pos = start;
    for (i, &(fi, _)) in seq.iter().enumerate() {
        let f = &FIELDS[fi];
        let got = bits::read(&buf, pos, f.len) as u64;
        if got != alone[i].1 {
            ctx.violation(
                format!("C08.independent_of_neighbours|{}", f.id),
                "C08.independent_of_neighbours",
                format!("field #{} ({}, value {:?}) is written as {:#x} after {} other field(s) on the same assembler but as {:#x} on its own; previous field: {}", i, f.id, alone[i].0, got, i, alone[i].1, if i > 0 { FIELDS[seq[i - 1].0].id } else { "-" }),
                rp(),
            );
            return;
        }
        pos += f.len;
    }
    // read back through one parser
    let r = guard(|| {
        let mut par = Parser::new(&buf[..], start);
        let mut out: Vec<Result<Dec, FErr>> = Vec::new();
        for &(fi, _) in seq {
            out.push((FIELDS[fi].dec_on)(&mut par));
        }
        (out, par.offset())
    });
    match r {
        Err(p) => ctx.panic_violation("C08.no_panic", &p, "decoding a sequence of fields through one parser", rp()),
        Ok((out, end)) => {
            for (i, d) in out.iter().enumerate() {
                // the canonical pattern decodes on its own to ...
                let f = &FIELDS[seq[i].0];
                let mut b = [0u8; 16];
                bits::write16(&mut b, 3, f.len, alone[i].1);
                let want = (f.dec)(&b, 3).map(|x| x.0);
                if d.as_ref().ok() != want.as_ref().ok() {
                    ctx.violation(
                        format!("C08.independent_of_neighbours|{}|decode", f.id),
                        "C08.independent_of_neighbours",
                        format!("field #{} ({}) pattern {:#x} decodes to {:?} after {} other field(s) on the same parser but to {:?} on its own", i, f.id, alone[i].1, d, i, want),
                        rp(),
                    );
                    return;
                }
            }
            if end != start + total {
                ctx.violation("C08.independent_of_neighbours|cursor".into(), "C08.independent_of_neighbours", format!("parser cursor {} after {} bits from {}", end, total, start), rp());
            }
        }
    }
    ctx.count("field_sequences");
    ctx.count_n("fields_in_sequences", seq.len() as u64);
}

/// pattern of field g whose decoded real value equals `v`, if g's grid has it
fn pattern_for_value(g: &FieldDef, v: f64) -> Option<u64> {
    let res = g.res?;
    let k = ((v - g.bias.unwrap_or(0.0)) / res).round();
    if !k.is_finite() || k.abs() > 9.0e18 {
        return None;
    }
    let k = k as i128;
    let (lo, hi) = g.k_range();
    if k < lo || k > hi || Some(k) == g.inv {
        return None;
    }
    let p = g.int_pattern(k);
    let mut b = [0u8; 16];
    bits::write16(&mut b, 3, g.len, p);
    match (g.dec)(&b, 3) {
        Ok((Dec::F64(x), _)) if x == v => Some(p),
        Ok((Dec::F32(x), _)) if x as f64 == v => Some(p),
        _ => None,
    }
}

fn random_field_sequence(ctx: &mut Ctx, rng: &mut Rng) {
    let n = rng.range(2, 6) as usize;
    let mut seq: Vec<(usize, u64)> = Vec::with_capacity(n);
    let mut equal_values = 0u64;
    for i in 0..n {
        let fi = if i > 0 && rng.chance(2, 3) {
            // a relative of the previous field: same width and value type
            let prev = &FIELDS[seq[i - 1].0];
            let rel: Vec<usize> = (0..FIELDS.len()).filter(|&j| FIELDS[j].len == prev.len && FIELDS[j].dt == prev.dt && FIELDS[j].cap.is_none()).collect();
            *rng.pick(&rel)
        } else {
            let mut j = rng.usize_below(FIELDS.len());
            while FIELDS[j].cap.is_some() {
                j = rng.usize_below(FIELDS.len());
            }
            j
        };
        let f = &FIELDS[fi];
        let m: u64 = if f.len == 64 { u64::MAX } else { (1u64 << f.len) - 1 };
        let mut p = match rng.below(6) {
            0 => 0,
            1 => m,
            2 => 1u64 << rng.below(f.len as u64),
            _ => rng.u64() & m,
        };
        if i > 0 && f.is_float() && rng.chance(2, 3) {
            // the same real value as the previous field, where this grid has it
            let (pf, pp) = (&FIELDS[seq[i - 1].0], seq[i - 1].1);
            let mut b = [0u8; 16];
            bits::write16(&mut b, 3, pf.len, pp);
            let v = match (pf.dec)(&b, 3) {
                Ok((Dec::F64(x), _)) => Some(x),
                Ok((Dec::F32(x), _)) => Some(x as f64),
                _ => None,
            };
            if let Some(q) = v.and_then(|v| pattern_for_value(f, v)) {
                p = q;
                equal_values += 1;
            } else if let Some(v) = v {
                // make the previous field small enough that both grids hold the value
                let _ = v;
            }
        }
        seq.push((fi, p));
    }
    let mut h = 0u64;
    for s in &seq {
        h = mix(h, (s.0 as u64) << 48 ^ s.1);
    }
    ctx.nontrivial(h);
    ctx.count_n("neighbouring_fields_given_equal_real_values", equal_values);
    check_field_sequence(ctx, &seq, rng.usize_below(9));
}

#[derive(Clone, Copy)]
enum Job {
    Exhaustive { field: usize, lo: u64, hi: u64 },
    Sampled { field: usize, n: u64, part: u64 },
    Bias { number: u16 },
    Sequences { n: u64, part: u64 },
}

pub fn run(p: &Params) -> Outcome {
    let seed = p.seed;
    // thorough: every field of up to 32 bits is enumerated completely in the release profile;
    // the overflow-checked profile enumerates up to 28 bits and samples above (2^30 each)
    let exhaustive_max = if p.thorough {
        if p.profile == "relchk" || p.profile == "nostd" {
            28
        } else {
            32
        }
    } else {
        24
    };
    let n_samples: u64 = p.size(1 << 22, 1 << 30);
    let mut jobs: Vec<Job> = Vec::new();
    for (i, f) in FIELDS.iter().enumerate() {
        if f.len <= exhaustive_max {
            let total: u64 = 1u64 << f.len;
            let chunk: u64 = 1u64 << CHUNK_BITS.min(f.len);
            let mut lo = 0;
            while lo < total {
                jobs.push(Job::Exhaustive { field: i, lo, hi: (lo + chunk).min(total) });
                lo += chunk;
            }
        } else {
            let parts = (n_samples >> 22).max(1);
            for part in 0..parts {
                jobs.push(Job::Sampled { field: i, n: n_samples / parts, part });
            }
        }
    }
    for n in [1059u16, 1065, 1230] {
        jobs.push(Job::Bias { number: n });
    }
    let n_seq = p.size(1_500_000, 60_000_000);
    for part in 0..64u64 {
        jobs.push(Job::Sequences { n: n_seq / 64, part });
    }
    let njobs = jobs.len();
    let mut total = par::run_queue(p.workers, njobs, move |ji, ctx| match jobs[ji] {
        Job::Sequences { n, part } => {
            let mut rng = Rng::derive(seed, "C08.seq", part);
            for _ in 0..n {
                random_field_sequence(ctx, &mut rng);
            }
        }
        Job::Exhaustive { field, lo, hi } => {
            let f = &FIELDS[field];
            let mut absent = 0u64;
            let mut margin = 0.0f64;
            for pat in lo..hi {
                let o = (mix(seed, pat) % 61) as usize;
                if check_pattern(ctx, f, pat, o, seed, &mut margin) {
                    absent += 1;
                }
            }
            ctx.max("grid_margin_steps", margin);
            ctx.evals(hi - lo);
            ctx.nontrivial_enumerated(hi - lo);
            ctx.count_dyn_n(format!("absent_patterns:{}", f.id), absent);
            ctx.count_dyn_n(format!("patterns_exhaustive:{}", f.id), hi - lo);
            if lo == 0 {
                ctx.count_dyn(format!("fields_exhaustive_width_{:02}", f.len));
                if f.optional() {
                    absent_encoding(ctx, f);
                }
                if ctx.want_sample() {
                    ctx.sample(|| json!({"field": f.id, "dt": f.dt, "it": f.it, "width": f.len, "mode": "all 2^w patterns", "example": {"pattern": "0x2a", "decoded": format!("{:?}", (f.dec)(&{ let mut b=[0u8;16]; bits::write16(&mut b, 3, f.len, 0x2a & ((1u64<<f.len)-1)); b }, 3).ok().map(|x| x.0))}}));
                }
            }
        }
        Job::Sampled { field, n, part } => {
            let f = &FIELDS[field];
            let mut rng = Rng::derive(seed, f.id, part);
            let w = f.len;
            let m: u64 = if w == 64 { u64::MAX } else { (1u64 << w) - 1 };
            let mut absent = 0u64;
            let mut done = 0u64;
            let mut margin = 0.0f64;
            if part == 0 {
                let mut bp = boundary_patterns(w);
                bp.extend(crate::fields::domain_codes(f).into_iter().map(|k| f.int_pattern(k)));
                for &pat in &bp {
                    for d in [0u64, 1, m] {
                        let q = pat.wrapping_add(d) & m;
                        if check_pattern(ctx, f, q, (q % 61) as usize, seed, &mut margin) {
                            absent += 1;
                        }
                        done += 1;
                    }
                }
                if let Some(inv) = f.inv {
                    let q = f.int_pattern(inv);
                    if !check_pattern(ctx, f, q, 7, seed, &mut margin) {
                        ctx.violation(format!("C08.absent_marker|{}", f.id), "C08.absent_marker", format!("field {}: the pattern of its invalid marker ({:#x}) does not decode to absent", f.id, q), replay_value(f, q, 7));
                    }
                    absent_encoding(ctx, f);
                }
                ctx.count_dyn(format!("fields_sampled_width_{:02}", f.len));
                if ctx.want_sample() {
                    ctx.sample(|| json!({"field": f.id, "dt": f.dt, "it": f.it, "width": f.len, "mode": format!("boundaries, one-hot neighbourhoods and stratified random samples"), "boundary_patterns": bp.len()}));
                }
            }
            // stratified: stratum index runs over the top bits, random low bits
            let strata: u64 = n.max(1);
            for s in 0..strata {
                let base = ((s as u128 * (m as u128 + 1)) / strata as u128) as u64;
                let width = (((m as u128 + 1) / strata as u128) as u64).max(1);
                let pat = (base + rng.below(width)) & m;
                if check_pattern(ctx, f, pat, (rng.u64() % 61) as usize, seed, &mut margin) {
                    absent += 1;
                }
                done += 1;
            }
            ctx.max("grid_margin_steps", margin);
            ctx.evals(done);
            // sampled patterns: strata are disjoint, hence distinct by construction
            ctx.nontrivial_enumerated(strata);
            ctx.count_dyn_n(format!("patterns_sampled:{}", f.id), done);
            if f.optional() {
                ctx.count_dyn_n(format!("absent_patterns_sampled:{}", f.id), absent);
            }
        }
        Job::Bias { number } => {
            let w = if number == 1230 { 16 } else { 14 };
            for pat in 0..(1u64 << w) {
                check_bias_pattern(ctx, number, pat, (pat % 97) as usize);
            }
            ctx.nontrivial_enumerated(1u64 << w);
            ctx.count_dyn_n(format!("patterns_exhaustive:msg{}_bias", number), 1u64 << w);
            // every pattern next to its neighbours on the grid, in one list
            let mask = (1u64 << w) - 1;
            let kmax = if number == 1059 { 12 } else { 4 };
            for pat in 0..(1u64 << w) {
                let up = (pat + 1) & mask;
                check_bias_neighbours(ctx, number, &[pat, up], (pat % 89) as usize);
                check_bias_neighbours(ctx, number, &[up, pat], (pat % 83) as usize);
                if pat % 4 == 0 {
                    check_bias_neighbours(ctx, number, &[pat, pat, up, (pat + 2) & mask], (pat % 79) as usize);
                    check_bias_neighbours(ctx, number, &[pat, pat ^ (1 << (w - 1)), pat], (pat % 73) as usize);
                }
                if pat % 64 == 0 {
                    let run: Vec<u64> = (0..kmax as u64).map(|i| (pat + i) & mask).collect();
                    check_bias_neighbours(ctx, number, &run, (pat % 71) as usize);
                }
                ctx.count_dyn(format!("bias_patterns_next_to_their_grid_neighbours:msg{}", number));
            }
        }
    });
    // post-merge: exactly one absent pattern per exhaustively enumerated optional field
    let mut n_exh = 0;
    let mut n_opt = 0;
    for f in FIELDS.iter() {
        let exh = total.get(&format!("patterns_exhaustive:{}", f.id));
        if exh == 1u64 << f.len {
            n_exh += 1;
            let a = total.get(&format!("absent_patterns:{}", f.id));
            if f.optional() {
                n_opt += 1;
                if a != 1 {
                    total.violation(format!("C08.absent_count|{}", f.id), "C08.absent_count", format!("optional field {}: {} of its 2^{} patterns decode to absent (must be exactly 1)", f.id, a, f.len), json!({"kind":"field_absent","field":f.id}));
                }
            }
        } else if f.len <= exhaustive_max {
            total.inconclusive(format!("field {} was not fully enumerated ({} of 2^{})", f.id, exh, f.len));
        }
    }
    if N_FIELDS_SCANNED < 250 {
        total.inconclusive(format!("only {} data fields found by the scanner", N_FIELDS_SCANNED));
    }
    total.exhaustive_parts.push(format!("all 2^w patterns of each of the {} fields with w <= {} ({} of them optional); all patterns of the three hand-written bias codecs", n_exh, exhaustive_max, n_opt));
    let all_exh = FIELDS.iter().all(|f| f.len <= exhaustive_max);
    Outcome {
        ctx: total,
        rule: format!("{} df! fields scanned from the tree; every pattern for w <= {}, boundaries + one-hot neighbourhoods + word-carry patterns (low 32 / low 16 bits all zero, all ones, one) + {} stratified samples for wider fields; 1059/1065/1230 bias codecs through one-entry frames and through lists in which every pattern sits next to its grid neighbours; sequences of 2..6 fields through one assembler and one parser (related fields, neighbouring fields given equal real values where both grids hold them) compared with each field on its own; oracle: pattern == encode(decode(pattern)) (sign-magnitude negative zero -> zero), widths, exactly one absent pattern, finiteness; enumerated patterns are distinct by construction (counted exactly)", N_FIELDS_SCANNED, exhaustive_max, n_samples),
        exhaustive: all_exh,
        extra: json!({"fields_scanned": N_FIELDS_SCANNED, "fields_exhaustive": n_exh, "optional_fields_exhaustive": n_opt, "hook": "rtcm_rs::verif_hooks::dfs"}),
    }
}

pub fn replay(_p: &Params, v: &Value) -> Outcome {
    let mut ctx = Ctx::new(0);
    match v["kind"].as_str().unwrap_or("") {
        "field_pattern" => {
            if let Some(f) = crate::fields::by_id(v["field"].as_str().unwrap_or("")) {
                let p: u64 = v["pattern"].as_str().and_then(|s| s.parse().ok()).unwrap_or(0);
                let o = v["offset"].as_u64().unwrap_or(0) as usize;
                ctx.eval();
                check_pattern(&mut ctx, f, p, o, 1, &mut 0.0);
            } else {
                ctx.inconclusive("field not found".into());
            }
        }
        "field_sequence" => {
            let start = v["start"].as_u64().unwrap_or(0) as usize;
            let seq: Vec<(usize, u64)> = v["fields"].as_array().map(|a| a.iter().filter_map(|x| Some((FIELDS.iter().position(|f| Some(f.id) == x[0].as_str())?, x[1].as_str()?.parse().ok()?))).collect()).unwrap_or_default();
            check_field_sequence(&mut ctx, &seq, start);
        }
        "field_absent" => {
            if let Some(f) = crate::fields::by_id(v["field"].as_str().unwrap_or("")) {
                ctx.eval();
                absent_encoding(&mut ctx, f);
                if f.len <= 26 {
                    let mut a = 0;
                    for pat in 0..(1u64 << f.len) {
                        if check_pattern(&mut ctx, f, pat, 3, 1, &mut 0.0) {
                            a += 1;
                        }
                    }
                    if a != 1 {
                        ctx.violation(format!("C08.absent_count|{}", f.id), "C08.absent_count", format!("{} absent patterns", a), v.clone());
                    }
                }
            }
        }
        "bias_pattern" => {
            let n = v["number"].as_u64().unwrap_or(1059) as u16;
            let p: u64 = v["pattern"].as_str().and_then(|s| s.parse().ok()).unwrap_or(0);
            check_bias_pattern(&mut ctx, n, p, v["variant"].as_u64().unwrap_or(0) as usize);
        }
        "bias_neighbours" => {
            let n = v["number"].as_u64().unwrap_or(1059) as u16;
            let pats: Vec<u64> = v["patterns"].as_array().map(|a| a.iter().filter_map(|x| x.as_str()?.parse().ok()).collect()).unwrap_or_default();
            check_bias_neighbours(&mut ctx, n, &pats, v["variant"].as_u64().unwrap_or(0) as usize);
        }
        k => ctx.inconclusive(format!("unknown replay kind {}", k)),
    }
    Outcome { ctx, rule: "replay of one recorded case".into(), exhaustive: false, extra: json!({}) }
}
