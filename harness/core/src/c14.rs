//! C14: decode outcome is classified by message number, exhaustively over all 4096 numbers.

use crate::framing::msg_class;
use crate::gen;
use crate::mon::{guard, hex, hex_short, unhex, Ctx};
use crate::oracle::{bits, crc};
use crate::par;
use crate::rng::{hash_bytes, Rng};
use crate::{Outcome, Params};
use rtcm_rs::prelude::*;
use serde_json::{json, Value};

fn debug_variant(m: &Message) -> String {
    let d = guard(|| format!("{:?}", m)).unwrap_or_else(|p| format!("<Debug panicked at {}>", p.site));
    d.split(|c: char| c == '(' || c == ' ' || c == '{').next().unwrap_or("").to_string()
}

fn check_frame(ctx: &mut Ctx, f: &[u8], supported: &[u16], shape: &'static str) {
    check_frame_in(ctx, f, &[], supported, shape);
    // the same frame as it appears in a stream: followed by other bytes
    check_frame_in(ctx, f, &[0x3E, 0xD0, 0x00, 0xD3, 0x00], supported, "same_frames_followed_by_other_bytes");
}

fn check_frame_in(ctx: &mut Ctx, f: &[u8], suffix: &[u8], supported: &[u16], shape: &'static str) {
    ctx.eval();
    ctx.count(shape);
    let l = f.len() - 6;
    let replay = || json!({"kind":"frame","hex":hex(f),"suffix":hex(suffix)});
    let mut buf = f.to_vec();
    buf.extend_from_slice(suffix);
    let r = guard(|| {
        let mf = MessageFrame::new(&buf).ok()?;
        Some((mf.message_number(), mf.get_message()))
    });
    let (num, m) = match r {
        Err(p) => {
            // the statement allows four outcomes for a well-formed frame; a panic is none of them
            // (also C02's business; reported here since seeded change C14-R11, which C14 had left to C02)
            ctx.count("decode_panics");
            ctx.panic_violation("C14.outcome_is_one_of_four", &p, &format!("decoding a reference-built frame ({})", shape), replay());
            return;
        }
        Ok(None) => {
            ctx.violation("C14.valid_frame_rejected".into(), "C14.valid_frame_rejected", format!("reference-built frame rejected: {}", hex_short(f)), replay());
            return;
        }
        Ok(Some(x)) => x,
    };
    if l < 2 {
        ctx.count("payload_shorter_than_2");
        if m != Message::Empty || num.is_some() {
            ctx.violation("C14.empty_iff_short|short_not_empty".into(), "C14.empty_iff_short", format!("payload of {} bytes decodes to {} (message_number {:?}), expected Empty", l, msg_class(&m), num), replay());
        }
        return;
    }
    let n = bits::read(f, 24, 12) as u16;
    ctx.nontrivial(hash_bytes(&buf));
    if num != Some(n) {
        ctx.violation("C14.frame_number".into(), "C14.frame_number", format!("message_number() = {:?}, first 12 payload bits = {}", num, n), replay());
    }
    let is_sup = supported.binary_search(&n).is_ok();
    match &m {
        Message::Empty => {
            ctx.violation("C14.empty_iff_short|long_is_empty".into(), "C14.empty_iff_short", format!("payload of {} bytes decodes to Empty", l), replay());
        }
        Message::MsgNotSupported(t) => {
            ctx.count("outcome_not_supported");
            if is_sup {
                ctx.violation(format!("C14.supported_reported_unsupported|{}", n), "C14.supported_reported_unsupported", format!("number {} is a message feature of the tree but decodes to MsgNotSupported", n), replay());
            } else if t.message_number != n {
                ctx.violation("C14.unsupported_carries_number".into(), "C14.unsupported_carries_number", format!("number {} decodes to MsgNotSupported carrying {}", n, t.message_number), replay());
            }
        }
        Message::Corrupt => {
            ctx.count("outcome_corrupt");
            if !is_sup {
                ctx.violation(format!("C14.unsupported_not_reported|{}", n), "C14.unsupported_not_reported", format!("number {} is not a message feature but decodes to Corrupt", n), replay());
            }
        }
        typed => {
            ctx.count("outcome_typed");
            ctx.count_dyn(format!("typed:{}", n));
            let vn = debug_variant(typed);
            if !is_sup {
                ctx.violation(format!("C14.unsupported_not_reported|{}", n), "C14.unsupported_not_reported", format!("number {} is not a message feature but decodes to {}", n, vn), replay());
            } else if typed.number() != Some(n) || vn != format!("Msg{}", n) {
                ctx.violation(
                    format!("C14.variant_of_number|{}", n),
                    "C14.variant_of_number",
                    format!("frame with number {} decodes to variant {} reporting number {:?}", n, vn, typed.number()),
                    replay(),
                );
            } else {
                // reverse direction: the typed message encodes under its own number
                let r = crate::io::build(typed);
                if let Ok(Ok(fr)) = r {
                    ctx.count("reverse_direction_checked");
                    let en = bits::read(&fr, 24, 12) as u16;
                    if en != n {
                        ctx.violation(format!("C14.encoded_under_own_number|{}", n), "C14.encoded_under_own_number", format!("variant {} (number() = {}) is encoded under number {}", vn, n, en), replay());
                    }
                }
            }
        }
    }
    if ctx.want_sample() && ctx.evaluations % 4099 == 7 {
        ctx.sample(|| json!({"number": n, "shape": shape, "payload_len": l, "outcome": msg_class(&m), "supported": is_sup}));
    }
}

pub fn run(p: &Params) -> Outcome {
    let seed = p.seed;
    let reps = p.size(40, 3000) as usize;
    let supported: Vec<u16> = gen::supported_numbers().to_vec();
    let sup2 = supported.clone();
    let mut total = par::run_queue(p.workers, 4096, move |n, ctx| {
        let n = n as u16;
        let mut rng = Rng::derive(seed, "C14", n as u64);
        let is_sup = supported.binary_search(&n).is_ok();
        let mk = |payload: &mut Vec<u8>| {
            bits::write(payload, 0, 12, n as u128);
            // reserved header bits derived from the payload so that a share of the frames has them set
            let r = payload.iter().fold(0u8, |a, b| a ^ *b);
            crc::frame_with_reserved(payload, if r & 3 == 0 { r >> 2 } else { 0 })
        };
        // two bytes only
        for low in [0u8, 0x0F, rng.u8() & 0x0F] {
            let mut pl = vec![0u8, low];
            let f = mk(&mut pl);
            check_frame(ctx, &f, &supported, "two_byte_payload");
        }
        for _ in 0..3 {
            let len = rng.range(3, 12) as usize;
            let mut pl = rng.bytes(len);
            let f = mk(&mut pl);
            check_frame(ctx, &f, &supported, "short_payload");
        }
        let mut pl = vec![0u8; 1023];
        check_frame(ctx, &mk(&mut pl), &supported, "full_length_zero");
        let mut pl = vec![0xFFu8; 1023];
        check_frame(ctx, &mk(&mut pl), &supported, "full_length_ones");
        let r = if is_sup { reps * 8 } else { reps };
        for _ in 0..r {
            let mut pl = rng.bytes(1023);
            check_frame(ctx, &mk(&mut pl), &supported, "full_length_random");
            let len = rng.range(2, 1023) as usize;
            let mut pl = rng.bytes(len);
            check_frame(ctx, &mk(&mut pl), &supported, "random_length_random");
        }
        if is_sup {
            for _ in 0..(reps * 4) {
                if let Some(f) = gen::lib_frame(n, &mut rng) {
                    check_frame(ctx, &f, &supported, "library_generated");
                }
                let (f, _) = gen::wire_frame(&mut rng, n);
                check_frame(ctx, &f, &supported, "hostile_typed");
            }
        }
        if is_sup {
            // bodies that hold the most negative value of a two's-complement carrier in every slot: a run of
            // "1 followed by w-1 zeros" starting at every bit position h, behind a header of ones or noise
            // (seeded change C14-R11: `abs()` of a 16-bit field panics on 0x8000 under overflow checks, i.e.
            // the frame gets none of the four outcomes; uniform payloads hit that once in 2^16 per slot)
            for w in [8usize, 10, 12, 14, 15, 16, 17, 20, 21, 22, 24, 32, 38] {
                for h in 12..=96usize {
                    for ones in [true, false] {
                        let mut pl = if ones { vec![0xFFu8; 160] } else { rng.bytes(160) };
                        for b in h..160 * 8 {
                            bits::write(&mut pl, b, 1, ((b - h) % w == 0) as u128);
                        }
                        check_frame(ctx, &mk(&mut pl), &supported, "runs_of_carrier_minimum_patterns");
                    }
                }
            }
        }
        if n < 64 {
            // payloads shorter than two bytes
            // with every setting of the six reserved header bits (n doubles as the setting)
            let res = n as u8 & 0x3F;
            let f0 = crc::frame_with_reserved(&[], res);
            check_frame(ctx, &f0, &supported, "payload_0_or_1_bytes");
            for b in [0u8, 0x3E, 0xFF, rng.u8()] {
                check_frame(ctx, &crc::frame_with_reserved(&[b], res), &supported, "payload_0_or_1_bytes");
            }
        }
    });
    total.exhaustive_parts.push("message number n in 0..=4095 (every value, several payload shapes each)".into());
    // set equalities
    let all = gen::all_msgs_list();
    if all != sup2 {
        total.violation("C14.feature_sets|all_msgs".into(), "C14.feature_sets", format!("msgNNNN features {:?} differ from the all_msgs list {:?}", sup2.len(), all.len()), json!({"kind":"config"}));
    }
    let missing: Vec<u16> = sup2.iter().copied().filter(|n| total.get(&format!("typed:{}", n)) == 0).collect();
    if !missing.is_empty() {
        total.inconclusive(format!("no typed decode observed for supported numbers {:?}", missing));
    }
    if total.get("payload_shorter_than_2") == 0 || total.get("outcome_not_supported") == 0 {
        total.inconclusive("short payloads or unsupported numbers not observed".into());
    }
    Outcome {
        ctx: total,
        rule: "all n in 0..=4095 x payload shapes {2 bytes, short, 1023 zero/ones/random, random length} + library-generated and hostile frames and runs of carrier-minimum patterns at every bit phase for supported n + payloads of 0 and 1 bytes; supported := msgNNNN features parsed from the tree's Cargo.toml (must equal all_msgs); oracle: Empty iff L<2, MsgNotSupported{n} iff n unsupported, else Corrupt or the variant named Msg<n> reporting n, which encodes under n; non-trivial = payload >= 2 bytes; distinct by frame hash".into(),
        exhaustive: false,
        extra: json!({"supported": sup2.len(), "all_msgs": all.len()}),
    }
}

pub fn replay(_p: &Params, v: &Value) -> Outcome {
    let mut ctx = Ctx::new(0);
    if v["kind"] == "frame" {
        let f = unhex(v["hex"].as_str().unwrap_or(""));
        let sfx = unhex(v["suffix"].as_str().unwrap_or(""));
        let sup: Vec<u16> = gen::supported_numbers().to_vec();
        check_frame_in(&mut ctx, &f, &sfx, &sup, "replay");
    } else {
        let all = gen::all_msgs_list();
        let sup: Vec<u16> = gen::supported_numbers().to_vec();
        ctx.eval();
        if all != sup {
            ctx.violation("C14.feature_sets|all_msgs".into(), "C14.feature_sets", "feature list differs from all_msgs".into(), v.clone());
        }
    }
    Outcome { ctx, rule: "replay".into(), exhaustive: false, extra: json!({}) }
}
