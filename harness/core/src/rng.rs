//! Own deterministic PRNG (splitmix64 seeding, xoshiro256**), so that workloads are
//! reproducible from VERIF_SEED and do not depend on any crate's algorithm choice.

#[derive(Clone)]
pub struct Rng {
    s: [u64; 4],
}

pub fn splitmix64(x: &mut u64) -> u64 {
    *x = x.wrapping_add(0x9E37_79B9_7F4A_7C15);
    let mut z = *x;
    z = (z ^ (z >> 30)).wrapping_mul(0xBF58_476D_1CE4_E5B9);
    z = (z ^ (z >> 27)).wrapping_mul(0x94D0_49BB_1331_11EB);
    z ^ (z >> 31)
}

pub fn mix(a: u64, b: u64) -> u64 {
    let mut x = a ^ b.wrapping_mul(0xD6E8_FEB8_6659_FD93);
    splitmix64(&mut x)
}

impl Rng {
    pub fn new(seed: u64) -> Rng {
        let mut x = seed;
        let s = [
            splitmix64(&mut x),
            splitmix64(&mut x),
            splitmix64(&mut x),
            splitmix64(&mut x),
        ];
        Rng { s }
    }
    /// Sub-stream: property salt, worker index, profile-independent.
    pub fn derive(seed: u64, salt: &str, worker: u64) -> Rng {
        let mut h = seed ^ 0x5EED_5EED_5EED_5EED;
        for b in salt.bytes() {
            h = mix(h, b as u64);
        }
        h = mix(h, worker.wrapping_add(0x1234_5678));
        Rng::new(h)
    }
    #[inline]
    pub fn u64(&mut self) -> u64 {
        let r = self.s[1].wrapping_mul(5).rotate_left(7).wrapping_mul(9);
        let t = self.s[1] << 17;
        self.s[2] ^= self.s[0];
        self.s[3] ^= self.s[1];
        self.s[1] ^= self.s[2];
        self.s[0] ^= self.s[3];
        self.s[2] ^= t;
        self.s[3] = self.s[3].rotate_left(45);
        r
    }
    #[inline]
    pub fn u32(&mut self) -> u32 {
        (self.u64() >> 32) as u32
    }
    #[inline]
    pub fn u8(&mut self) -> u8 {
        (self.u64() >> 56) as u8
    }
    /// uniform in 0..n (n > 0)
    #[inline]
    pub fn below(&mut self, n: u64) -> u64 {
        debug_assert!(n > 0);
        ((self.u64() as u128 * n as u128) >> 64) as u64
    }
    #[inline]
    pub fn usize_below(&mut self, n: usize) -> usize {
        self.below(n as u64) as usize
    }
    /// uniform in lo..=hi
    #[inline]
    pub fn range(&mut self, lo: i64, hi: i64) -> i64 {
        lo + self.below((hi - lo + 1) as u64) as i64
    }
    #[inline]
    pub fn chance(&mut self, num: u64, den: u64) -> bool {
        self.below(den) < num
    }
    #[inline]
    pub fn bool(&mut self) -> bool {
        self.u64() >> 63 == 1
    }
    pub fn f64_unit(&mut self) -> f64 {
        (self.u64() >> 11) as f64 / (1u64 << 53) as f64
    }
    pub fn fill(&mut self, buf: &mut [u8]) {
        let mut i = 0;
        while i < buf.len() {
            let v = self.u64().to_le_bytes();
            let n = (buf.len() - i).min(8);
            buf[i..i + n].copy_from_slice(&v[..n]);
            i += n;
        }
    }
    pub fn bytes(&mut self, n: usize) -> Vec<u8> {
        let mut v = vec![0u8; n];
        self.fill(&mut v);
        v
    }
    pub fn pick<'a, T>(&mut self, xs: &'a [T]) -> &'a T {
        &xs[self.usize_below(xs.len())]
    }
    pub fn shuffle<T>(&mut self, xs: &mut [T]) {
        for i in (1..xs.len()).rev() {
            let j = self.usize_below(i + 1);
            xs.swap(i, j);
        }
    }
}

/// Adapter so the library's own generator (`ValGen`) can be driven by our streams,
/// including degenerate ones.
pub enum Stream {
    Random(Rng),
    Const(u64),
    /// random, but returns u64::MAX at every k-th draw (forces capacity / invalid-marker paths)
    Spiked(Rng, u32, u32),
}

impl rand::RngCore for Stream {
    fn next_u32(&mut self) -> u32 {
        (self.next_u64() >> 32) as u32
    }
    fn next_u64(&mut self) -> u64 {
        match self {
            Stream::Random(r) => r.u64(),
            Stream::Const(c) => *c,
            Stream::Spiked(r, k, n) => {
                *n += 1;
                if *n % *k == 0 {
                    u64::MAX
                } else {
                    r.u64()
                }
            }
        }
    }
    fn fill_bytes(&mut self, dest: &mut [u8]) {
        let mut i = 0;
        while i < dest.len() {
            let v = self.next_u64().to_le_bytes();
            let n = (dest.len() - i).min(8);
            dest[i..i + n].copy_from_slice(&v[..n]);
            i += n;
        }
    }
    fn try_fill_bytes(&mut self, dest: &mut [u8]) -> Result<(), rand::Error> {
        self.fill_bytes(dest);
        Ok(())
    }
}

pub fn hash_bytes(b: &[u8]) -> u64 {
    // FNV-1a 64 followed by a finaliser; only used for distinct counting.
    let mut h: u64 = 0xcbf2_9ce4_8422_2325;
    for &x in b {
        h ^= x as u64;
        h = h.wrapping_mul(0x0000_0100_0000_01B3);
    }
    let mut x = h;
    splitmix64(&mut x)
}
