//! Shared monitor plumbing: panic capture, observation counters, distinct counting,
//! samples, violations, merge and JSON report.

use serde_json::{json, Map, Value};
use std::cell::RefCell;
use std::collections::{BTreeMap, HashMap, HashSet};
use std::panic::{self, AssertUnwindSafe};

#[derive(Clone, Debug)]
pub struct PanicEv {
    pub site: String,
    pub msg: String,
}

thread_local! {
    static LAST_PANIC: RefCell<Option<PanicEv>> = RefCell::new(None);
}

fn norm_site(file: &str, line: u32) -> String {
    // "/repo/src/df/parser.rs" or "../../repo/src/df/parser.rs" -> "src/df/parser.rs:LINE"
    let f = file.replace('\\', "/");
    let short = if let Some(p) = f.find("/registry/src/") {
        let rest = &f[p + "/registry/src/".len()..];
        match rest.find('/') {
            Some(q) => rest[q + 1..].to_string(),
            None => rest.to_string(),
        }
    } else if let Some(p) = f.find("repo/src/") {
        f[p + 5..].to_string()
    } else if let Some(p) = f.find("harness/src/") {
        format!("HARNESS:{}", &f[p + 8..])
    } else if let Some(p) = f.find("/library/") {
        format!("std:{}", &f[p + 9..])
    } else {
        f.clone()
    };
    format!("{}:{}", short, line)
}

pub fn install_panic_hook() {
    panic::set_hook(Box::new(|info| {
        let site = match info.location() {
            Some(l) => norm_site(l.file(), l.line()),
            None => "unknown".to_string(),
        };
        let msg = if let Some(s) = info.payload().downcast_ref::<&str>() {
            s.to_string()
        } else if let Some(s) = info.payload().downcast_ref::<String>() {
            s.clone()
        } else {
            "<non-string panic payload>".to_string()
        };
        LAST_PANIC.with(|c| *c.borrow_mut() = Some(PanicEv { site, msg }));
    }));
}

/// Run `f`, turning a panic into an event.
pub fn guard<T>(f: impl FnOnce() -> T) -> Result<T, PanicEv> {
    match panic::catch_unwind(AssertUnwindSafe(f)) {
        Ok(v) => Ok(v),
        Err(_) => Err(LAST_PANIC.with(|c| c.borrow_mut().take()).unwrap_or(PanicEv {
            site: "unknown".into(),
            msg: "panic without hook record".into(),
        })),
    }
}

#[derive(Clone, Debug)]
pub struct Violation {
    pub signature: String,
    pub rule: String,
    pub detail: String,
    pub replay: Value,
}

pub const DISTINCT_CAP: usize = 1 << 21;
const MAX_SAMPLES: usize = 6;
const MAX_VIOL_PER_SIG: u64 = 2;
const MAX_VIOL_TOTAL: usize = 200;

pub struct Ctx {
    pub worker: usize,
    pub evaluations: u64,
    pub nontrivial: u64,
    distinct: HashSet<u64>,
    pub distinct_capped: bool,
    /// cases known to be pairwise distinct by construction (enumerations), counted exactly
    pub distinct_by_construction: u64,
    counters: HashMap<&'static str, u64>,
    dyn_counters: BTreeMap<String, u64>,
    pub samples: Vec<Value>,
    pub violations: Vec<Violation>,
    pub viol_by_sig: BTreeMap<String, u64>,
    pub inconclusive: Vec<String>,
    pub exhaustive_parts: Vec<String>,
    pub maxima: BTreeMap<String, f64>,
}

impl Ctx {
    pub fn new(worker: usize) -> Ctx {
        Ctx {
            worker,
            evaluations: 0,
            nontrivial: 0,
            distinct: HashSet::new(),
            distinct_capped: false,
            distinct_by_construction: 0,
            counters: HashMap::new(),
            dyn_counters: BTreeMap::new(),
            samples: Vec::new(),
            violations: Vec::new(),
            viol_by_sig: BTreeMap::new(),
            inconclusive: Vec::new(),
            exhaustive_parts: Vec::new(),
            maxima: BTreeMap::new(),
        }
    }
    #[inline]
    pub fn eval(&mut self) {
        self.evaluations += 1;
    }
    #[inline]
    pub fn evals(&mut self, n: u64) {
        self.evaluations += n;
    }
    /// Record a non-trivial case by hash (distinct counting is exact up to DISTINCT_CAP
    /// per worker, afterwards it stops growing: the reported number is then a lower bound).
    #[inline]
    pub fn nontrivial(&mut self, h: u64) {
        self.nontrivial += 1;
        if self.distinct.len() < DISTINCT_CAP {
            self.distinct.insert(h);
        } else {
            self.distinct_capped = true;
        }
    }
    /// n non-trivial cases that are pairwise distinct by construction (and distinct from
    /// everything hashed): counted without going through the hash set
    #[inline]
    pub fn nontrivial_enumerated(&mut self, n: u64) {
        self.nontrivial += n;
        self.distinct_by_construction += n;
    }
    #[inline]
    pub fn count(&mut self, k: &'static str) {
        *self.counters.entry(k).or_insert(0) += 1;
    }
    #[inline]
    pub fn count_n(&mut self, k: &'static str, n: u64) {
        *self.counters.entry(k).or_insert(0) += n;
    }
    pub fn count_dyn(&mut self, k: String) {
        *self.dyn_counters.entry(k).or_insert(0) += 1;
    }
    pub fn count_dyn_n(&mut self, k: String, n: u64) {
        *self.dyn_counters.entry(k).or_insert(0) += n;
    }
    pub fn get(&self, k: &str) -> u64 {
        self.counters.get(k).copied().unwrap_or(0) + self.dyn_counters.get(k).copied().unwrap_or(0)
    }
    pub fn max(&mut self, k: &str, v: f64) {
        let e = self.maxima.entry(k.to_string()).or_insert(f64::NEG_INFINITY);
        if v > *e {
            *e = v;
        }
    }
    pub fn sample(&mut self, f: impl FnOnce() -> Value) {
        if self.samples.len() < MAX_SAMPLES {
            self.samples.push(f());
        }
    }
    pub fn want_sample(&self) -> bool {
        self.samples.len() < MAX_SAMPLES
    }
    pub fn violation(&mut self, signature: String, rule: &str, detail: String, replay: Value) {
        let n = self.viol_by_sig.entry(signature.clone()).or_insert(0);
        *n += 1;
        if *n <= MAX_VIOL_PER_SIG && self.violations.len() < MAX_VIOL_TOTAL {
            self.violations.push(Violation {
                signature,
                rule: rule.to_string(),
                detail,
                replay,
            });
        }
    }
    /// does this signature still need an example (replay + detail)?
    pub fn wants(&self, signature: &str) -> bool {
        self.viol_by_sig.get(signature).copied().unwrap_or(0) < MAX_VIOL_PER_SIG
    }
    /// like `violation`, but detail and replay are only built while examples are still wanted
    pub fn violation_lazy(&mut self, signature: String, rule: &str, f: impl FnOnce() -> (String, Value)) {
        if self.wants(&signature) && self.violations.len() < MAX_VIOL_TOTAL {
            let (detail, replay) = f();
            self.violation(signature, rule, detail, replay);
        } else {
            *self.viol_by_sig.entry(signature).or_insert(0) += 1;
        }
    }
    /// so many violations that going on only burns time: workloads may stop early (the
    /// verdict is already decided; evidence records that the run was cut short)
    pub fn saturated(&self) -> bool {
        self.viol_by_sig.values().sum::<u64>() >= 20_000
    }
    pub fn panic_violation(&mut self, rule: &str, p: &PanicEv, what: &str, replay: Value) {
        self.count("panics_observed");
        self.violation(
            format!("{}|panic|{}", rule, p.site),
            rule,
            format!("panic at {} ({}) during {}", p.site, p.msg, what),
            replay,
        );
    }
    pub fn inconclusive(&mut self, why: String) {
        self.inconclusive.push(why);
    }
    pub fn merge(&mut self, o: Ctx) {
        self.evaluations += o.evaluations;
        self.nontrivial += o.nontrivial;
        self.distinct_capped |= o.distinct_capped;
        self.distinct_by_construction += o.distinct_by_construction;
        for h in o.distinct {
            if self.distinct.len() < DISTINCT_CAP * 8 {
                self.distinct.insert(h);
            } else {
                self.distinct_capped = true;
            }
        }
        for (k, v) in o.counters {
            *self.counters.entry(k).or_insert(0) += v;
        }
        for (k, v) in o.dyn_counters {
            *self.dyn_counters.entry(k).or_insert(0) += v;
        }
        for s in o.samples {
            if self.samples.len() < MAX_SAMPLES * 2 {
                self.samples.push(s);
            }
        }
        for (k, v) in o.viol_by_sig {
            *self.viol_by_sig.entry(k).or_insert(0) += v;
        }
        for v in o.violations {
            let have = self.violations.iter().filter(|x| x.signature == v.signature).count() as u64;
            if have < MAX_VIOL_PER_SIG && self.violations.len() < MAX_VIOL_TOTAL {
                self.violations.push(v);
            }
        }
        self.inconclusive.extend(o.inconclusive);
        for p in o.exhaustive_parts {
            if !self.exhaustive_parts.contains(&p) {
                self.exhaustive_parts.push(p);
            }
        }
        for (k, v) in o.maxima {
            let e = self.maxima.entry(k).or_insert(f64::NEG_INFINITY);
            if v > *e {
                *e = v;
            }
        }
    }
    pub fn distinct_count(&self) -> u64 {
        self.distinct.len() as u64 + self.distinct_by_construction
    }
    pub fn observations(&self) -> Value {
        let mut m = Map::new();
        let mut keys: Vec<(&str, u64)> = self.counters.iter().map(|(k, v)| (*k, *v)).collect();
        keys.sort();
        for (k, v) in keys {
            m.insert(k.to_string(), json!(v));
        }
        for (k, v) in &self.dyn_counters {
            m.insert(k.clone(), json!(v));
        }
        for (k, v) in &self.maxima {
            m.insert(format!("max:{}", k), json!(v));
        }
        Value::Object(m)
    }
    pub fn to_json(&self) -> Value {
        json!({
            "evaluations": self.evaluations,
            "nontrivial": self.nontrivial,
            "distinct_nontrivial": self.distinct_count(),
            "distinct_capped": self.distinct_capped,
            "samples": self.samples,
            "observations": self.observations(),
            "exhaustive_parts": self.exhaustive_parts,
            "violation_count": self.viol_by_sig.values().sum::<u64>(),
            "violations_by_signature": self.viol_by_sig,
            "violations": self.violations.iter().map(|v| json!({
                "signature": v.signature, "rule": v.rule, "detail": v.detail, "replay": v.replay
            })).collect::<Vec<_>>(),
            "inconclusive": self.inconclusive,
        })
    }
}

pub fn hex(b: &[u8]) -> String {
    let mut s = String::with_capacity(b.len() * 2);
    for x in b {
        s.push_str(&format!("{:02x}", x));
    }
    s
}

pub fn unhex(s: &str) -> Vec<u8> {
    let s = s.trim();
    (0..s.len() / 2)
        .map(|i| u8::from_str_radix(&s[2 * i..2 * i + 2], 16).unwrap_or(0))
        .collect()
}

/// hex for evidence: long inputs are abbreviated (replay files always carry the full input)
pub fn hex_short(b: &[u8]) -> String {
    if b.len() <= 96 {
        hex(b)
    } else {
        format!("{}..({} bytes)..{}", hex(&b[..48]), b.len(), hex(&b[b.len() - 16..]))
    }
}
