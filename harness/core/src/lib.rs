//! rtcm-verif-core: the serde-free part of the harness (reference oracles, generators,
//! monitors whose hot loops want full optimisation).  The binary crate adds the value
//! tree / serde based monitors.
#![allow(dead_code)]

pub mod c07;
pub mod c08;
pub mod c11;
pub mod c14;
pub mod c16;
pub mod fields;
pub mod framing;
pub mod gen;
pub mod io;
pub mod mon;
pub mod oracle;
pub mod par;
pub mod rng;

use serde_json::Value;

#[derive(Clone, Debug)]
pub struct Params {
    pub prop: String,
    pub thorough: bool,
    pub seed: u64,
    pub profile: String,
    pub workers: usize,
}

impl Params {
    /// pick a size by tier
    pub fn size(&self, quick: u64, thorough: u64) -> u64 {
        let base = if self.thorough { thorough } else { quick };
        // VERIF_SCALE (percent) lets the mutant runner shorten or lengthen runs
        let pct: u64 = std::env::var("VERIF_SCALE").ok().and_then(|s| s.parse().ok()).unwrap_or(100);
        (base * pct / 100).max(1)
    }
}

pub struct Outcome {
    pub ctx: mon::Ctx,
    pub rule: String,
    pub exhaustive: bool,
    pub extra: Value,
}
