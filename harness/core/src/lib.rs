//! rtcm-verif-core: the serde-free part of the harness (reference oracles, generators,
//! monitors whose hot loops want full optimisation).  The binary crate adds the value
//! tree / serde based monitors.
#![allow(dead_code)]

pub mod c07;
pub mod c08;
pub mod c11;
pub mod c14;
pub mod c16;
pub mod fields;
pub mod framing;
pub mod gen;
pub mod io;
pub mod mon;
pub mod oracle;
pub mod par;
pub mod rng;

use serde_json::Value;

#[derive(Clone, Debug)]
pub struct Params {
    pub prop: String,
    pub thorough: bool,
    pub seed: u64,
    pub profile: String,
    pub workers: usize,
}

impl Params {
    /// pick a size by tier
    pub fn size(&self, quick: u64, thorough: u64) -> u64 {
        let base = if self.thorough { thorough } else { quick };
        // VERIF_SCALE (percent) lets the mutant runner shorten or lengthen runs
        let pct: u64 = std::env::var("VERIF_SCALE").ok().and_then(|s| s.parse().ok()).unwrap_or(100);
        (base * pct / 100).max(1)
    }
}

pub struct Outcome {
    pub ctx: mon::Ctx,
    pub rule: String,
    pub exhaustive: bool,
    pub extra: Value,
}

#[cfg(test)]
mod selftest {
    //! Tests of the reference oracles themselves (they are the trusted base of every monitor).
    use crate::oracle::frame::{classify, scan, scan_all, Class};
    use crate::oracle::{bits, crc, layout, msm, sig};

    #[test]
    fn crc24q_published_check_value() {
        assert_eq!(crc::crc24q(b"123456789"), 0xCDE703);
        assert_eq!(crc::crc24q(b""), 0);
        // a real-world RTCM 1005 frame (RTKLIB test vector layout): header + checksum agree
        let f = crc::frame(&[0x3E, 0xD0, 0x00, 0x03]);
        assert_eq!(classify(&f), Class::Accept(4));
        assert_eq!(f[0], 0xD3);
        assert_eq!(&f[1..3], &[0, 4]);
    }

    #[test]
    fn classifier_is_worded_like_c03() {
        let f = crc::frame(&[1, 2, 3]);
        assert_eq!(classify(&f), Class::Accept(3));
        for t in 0..f.len() {
            assert_eq!(classify(&f[..t]), if t == 0 { Class::RejectEither } else { Class::Incomplete }, "t={}", t);
        }
        let mut g = f.clone();
        g[0] = 0xD2;
        assert_eq!(classify(&g), Class::NotValid);
        assert_eq!(classify(&g[..5]), Class::RejectEither);
        let mut g = f.clone();
        g[7] ^= 1;
        assert_eq!(classify(&g), Class::NotValid);
        // reserved bits do not influence acceptance
        let r = crc::frame_with_reserved(&[1, 2, 3], 0x3F);
        assert_eq!(classify(&r), Class::Accept(3));
        // a suffix does not change acceptance
        let mut h = f.clone();
        h.extend_from_slice(&[9, 9, 9]);
        assert_eq!(classify(&h), Class::Accept(3));
    }

    #[test]
    fn scanner_is_worded_like_c05() {
        let f = crc::frame(&[7; 5]);
        let mut b = vec![0u8, 0xD3, 0x00, 0x00, 0x00, 0x00, 0x00, 1];
        let off = b.len();
        b.extend(&f);
        // the 0xD3 at 1 announces L=0: complete candidate with a bad checksum -> skipped
        assert_eq!(scan(&b), (off + f.len(), Some((off, off + f.len()))));
        // incomplete earlier candidate wins
        let mut c = vec![0xD3, 0x03, 0xFF];
        c.extend(&f);
        assert_eq!(scan(&c), (0, None));
        // nothing: whole buffer
        assert_eq!(scan(&[1, 2, 3]), (3, None));
        assert_eq!(scan(&[]), (0, None));
        let mut two = f.clone();
        two.extend(&f);
        two.push(0xD3);
        let (fr, total) = scan_all(&two);
        assert_eq!(fr, vec![(0, f.len()), (f.len(), 2 * f.len())]);
        assert_eq!(total, 2 * f.len());
    }

    #[test]
    fn bit_reference() {
        let mut b = bits::BitBuf::new();
        b.push(0b101, 3);
        b.push(0xABC, 12);
        b.push(1, 1);
        let v = b.into_bytes();
        assert_eq!(v, vec![0b1011_0101, 0b0111_1001]);
        assert_eq!(bits::read(&v, 3, 12), 0xABC);
        assert_eq!(bits::twos_pattern(-1, 5), 0b11111);
        assert_eq!(bits::twos_value(0b10000, 5), -16);
        assert_eq!(bits::sm_pattern(-3, 5), 0b10011);
        assert_eq!(bits::sm_value(0b10000, 5), 0);
        assert_eq!(bits::sm_value(0b11111, 5), -15);
        assert!(bits::self_check_fast());
    }

    #[test]
    fn signal_tables_and_masks() {
        let n: usize = (0..7).map(|c| sig::positions(c).len()).sum();
        assert_eq!(n, 73);
        assert_eq!(sig::sig_to_pos(0, 1, 'C'), Some(2));
        assert_eq!(sig::sig_to_pos(0, 2, 'W'), Some(10));
        assert_eq!(sig::sig_to_pos(0, 5, 'X'), Some(24));
        assert_eq!(sig::sig_to_pos(1, 1, 'P'), Some(3));
        assert_eq!(sig::sig_to_pos(1, 2, 'C'), Some(8));
        assert_eq!(sig::sig_to_pos(1, 2, 'P'), Some(9));
        for c in 0..7 {
            for p in sig::positions(c) {
                let (b, a) = sig::pos_to_sig(c, p).unwrap();
                assert_eq!(sig::sig_to_pos(c, b, a), Some(p));
                assert!((2..=32).contains(&p));
            }
        }
        let r = msm::msm_ref(&[5, 1], &[10, 2], &[(5, 2), (1, 10)]);
        assert_eq!(r.sats, vec![1, 5]);
        assert_eq!(r.sigs, vec![2, 10]);
        assert_eq!(r.sat_mask, (1u64 << 63) | (1u64 << 59));
        assert_eq!(r.sig_mask, (1u32 << 30) | (1u32 << 22));
        assert_eq!(r.cell_mask_bits, vec![false, true, true, false]);
        assert_eq!(r.cells, vec![(1, 10), (5, 2)]);
    }

    #[test]
    fn layout_constants_are_consistent() {
        for l in layout::LISTS {
            assert!(l.count_bit + l.count_width <= l.elems_bit, "{}", l.number);
            assert!(l.capacity < (1 << l.count_width) || l.capacity == (1 << l.count_width) - 1);
            assert!(l.elems_bit + l.capacity * l.elem_bits <= 1023 * 8, "{} does not fit", l.number);
        }
        assert!(layout::is_msm(1071) && layout::is_msm(1137) && !layout::is_msm(1078) && !layout::is_msm(1070));
        assert_eq!(layout::msm_constellation(1124), 5);
    }
}
