//! Uniform access to the ~310 macro-generated data-field codecs through the hook.

use rtcm_rs::rtcm_error::RtcmError;
use rtcm_rs::verif_hooks::assembler::Assembler;
use rtcm_rs::verif_hooks::dfs;
use rtcm_rs::verif_hooks::parser::Parser;

/// A decoded field value in a uniform shape.
#[derive(Clone, Copy, Debug, PartialEq)]
pub enum Dec {
    Absent,
    Int(i128),
    F32(f32),
    F64(f64),
}

pub trait FieldVal: Sized {
    fn to_dec(&self) -> Dec;
    fn from_dec(d: &Dec) -> Option<Self>;
}

macro_rules! int_val {
    ($($t:ty),*) => {$(
        impl FieldVal for $t {
            fn to_dec(&self) -> Dec { Dec::Int(*self as i128) }
            fn from_dec(d: &Dec) -> Option<Self> {
                match d { Dec::Int(v) => <$t>::try_from(*v).ok(), _ => None }
            }
        }
    )*};
}
int_val!(u8, u16, u32, u64, i8, i16, i32, i64, usize);

impl FieldVal for f32 {
    fn to_dec(&self) -> Dec {
        Dec::F32(*self)
    }
    fn from_dec(d: &Dec) -> Option<Self> {
        match d {
            Dec::F32(v) => Some(*v),
            _ => None,
        }
    }
}
impl FieldVal for f64 {
    fn to_dec(&self) -> Dec {
        Dec::F64(*self)
    }
    fn from_dec(d: &Dec) -> Option<Self> {
        match d {
            Dec::F64(v) => Some(*v),
            _ => None,
        }
    }
}
impl<T: FieldVal> FieldVal for Option<T> {
    fn to_dec(&self) -> Dec {
        match self {
            None => Dec::Absent,
            Some(v) => v.to_dec(),
        }
    }
    fn from_dec(d: &Dec) -> Option<Self> {
        match d {
            Dec::Absent => Some(None),
            other => T::from_dec(other).map(Some),
        }
    }
}

#[derive(Debug, Clone, Copy, PartialEq, Eq)]
pub enum FErr {
    BufferOverflow,
    OutOfRange,
    Other,
    /// the uniform value does not fit the field's Rust type (harness-side, not a library error)
    NotConstructible,
}

fn map_err(e: RtcmError) -> FErr {
    match e {
        RtcmError::BufferOverflow => FErr::BufferOverflow,
        RtcmError::OutOfRange => FErr::OutOfRange,
        _ => FErr::Other,
    }
}

/// decode at bit offset o; returns the value and the number of bits consumed
pub fn dec_w<T: FieldVal>(f: fn(&mut Parser) -> Result<T, RtcmError>, buf: &[u8], o: usize) -> Result<(Dec, usize), FErr> {
    let mut par = Parser::new(buf, o);
    match f(&mut par) {
        Ok(v) => Ok((v.to_dec(), par.offset() - o)),
        Err(e) => Err(map_err(e)),
    }
}

/// encode at bit offset o; returns the number of bits written
pub fn enc_w<T: FieldVal>(f: fn(&mut Assembler, &T) -> Result<(), RtcmError>, d: &Dec, buf: &mut [u8], o: usize) -> Result<usize, FErr> {
    let v = match T::from_dec(d) {
        Some(v) => v,
        None => return Err(FErr::NotConstructible),
    };
    let mut asm = Assembler::new(buf, o);
    match f(&mut asm, &v) {
        Ok(()) => Ok(asm.offset() - o),
        Err(e) => Err(map_err(e)),
    }
}

/// decode with a parser the caller owns (several fields through one parser)
pub fn dec_on_w<T: FieldVal>(f: fn(&mut Parser) -> Result<T, RtcmError>, par: &mut Parser) -> Result<Dec, FErr> {
    match f(par) {
        Ok(v) => Ok(v.to_dec()),
        Err(e) => Err(map_err(e)),
    }
}

/// encode with an assembler the caller owns (several fields through one assembler)
pub fn enc_on_w<T: FieldVal>(f: fn(&mut Assembler, &T) -> Result<(), RtcmError>, d: &Dec, asm: &mut Assembler) -> Result<(), FErr> {
    let v = match T::from_dec(d) {
        Some(v) => v,
        None => return Err(FErr::NotConstructible),
    };
    f(asm, &v).map_err(map_err)
}

pub struct FieldDef {
    pub id: &'static str,
    pub dt: &'static str,
    pub it: &'static str,
    pub len: usize,
    pub res: Option<f64>,
    pub res_src: Option<&'static str>,
    pub bias: Option<f64>,
    pub round: bool,
    pub cap: Option<&'static str>,
    pub inv: Option<i128>,
    pub has_ord: bool,
    pub dec: fn(&[u8], usize) -> Result<(Dec, usize), FErr>,
    pub enc: fn(&Dec, &mut [u8], usize) -> Result<usize, FErr>,
    pub dec_on: for<'a, 'b> fn(&'b mut Parser<'a>) -> Result<Dec, FErr>,
    pub enc_on: for<'a, 'b> fn(&Dec, &'b mut Assembler<'a>) -> Result<(), FErr>,
}

impl FieldDef {
    pub fn is_float(&self) -> bool {
        self.dt == "f32" || self.dt == "f64"
    }
    pub fn is_sm(&self) -> bool {
        self.it.starts_with("SM")
    }
    pub fn is_signed(&self) -> bool {
        self.it.starts_with('I')
    }
    pub fn optional(&self) -> bool {
        self.inv.is_some()
    }
    /// integer meaning of a bit pattern under the carrier's sign convention (reference)
    pub fn pattern_int(&self, p: u64) -> i128 {
        if self.is_sm() {
            crate::oracle::bits::sm_value(p as u128, self.len)
        } else if self.is_signed() {
            crate::oracle::bits::twos_value(p as u128, self.len)
        } else {
            p as i128
        }
    }
    pub fn int_pattern(&self, k: i128) -> u64 {
        if self.is_sm() {
            crate::oracle::bits::sm_pattern(k, self.len) as u64
        } else if self.is_signed() {
            crate::oracle::bits::twos_pattern(k, self.len) as u64
        } else {
            k as u64
        }
    }
    /// representable integer range of the carrier at this width
    pub fn k_range(&self) -> (i128, i128) {
        let w = self.len;
        if self.is_sm() {
            (-((1i128 << (w - 1)) - 1), (1i128 << (w - 1)) - 1)
        } else if self.is_signed() {
            (-(1i128 << (w - 1)), (1i128 << (w - 1)) - 1)
        } else {
            (0, (1i128 << w) - 1)
        }
    }
}

include!(concat!(env!("OUT_DIR"), "/fields_gen.rs"));

/// Values with a meaning in the application domain (GNSS time periods, round decimal
/// numbers, physical constants): code that special-cases "a full week" or "exactly 1.0" does
/// so at these, and no boundary list contains them.  Returned as integer codes k = V / res
/// (+-1) inside the field's representable range.
pub fn domain_codes(f: &FieldDef) -> Vec<i128> {
    const V: &[f64] = &[
        604800.0, 302400.0, 86400.0, 43200.0, 3600.0, 1800.0, 900.0, 600.0, 300.0, 60.0, 30.0, 15.0, 10.0, 5.0, 2.0, 1.0, 0.5, 0.25, 0.1, 0.01, 0.001,
        100.0, 1000.0, 1.0e4, 1.0e5, 1.0e6, 1.0e7, 1.0e8, 360.0, 180.0, 90.0, 45.0, 3.141592653589793, 6.283185307179586, 1.5707963267948966,
        299792.458, 299792458.0, 2.99792458, 6378137.0, 6356752.3142, 6371000.0, 20200000.0, 26560000.0, 42164000.0, 1023.0, 1024.0, 4096.0, 65536.0, 255.0, 256.0, 127.0, 128.0,
        604799.9, 86399.0, 7.0, 24.0, 365.0, 1461.0, 2000.0, 1980.0, 19.0, 37.0, 18.0,
    ];
    let (lo, hi) = f.k_range();
    let res = f.res.unwrap_or(1.0);
    let bias = f.bias.unwrap_or(0.0);
    let mut out = Vec::new();
    for &v in V {
        for s in [1.0f64, -1.0] {
            let k = ((s * v - bias) / res).round();
            if k.is_finite() && k.abs() < 1.0e30 {
                let k = k as i128;
                for d in [-1i128, 0, 1] {
                    if k + d >= lo && k + d <= hi {
                        out.push(k + d);
                    }
                }
            }
        }
    }
    out.sort();
    out.dedup();
    out
}

pub fn by_id(id: &str) -> Option<&'static FieldDef> {
    FIELDS.iter().find(|f| f.id == id)
}
