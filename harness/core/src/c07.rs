//! C07: bit-field packing is exact.  Observes Assembler::put / Parser::parse through the
//! cfg(rtcm_rs_verif) hook and compares buffers bit for bit with the BitRef model.

use crate::mon::{guard, hex, unhex, Ctx};
use crate::oracle::bits;
use crate::par;
use crate::rng::Rng;
use crate::{Outcome, Params};
use rtcm_rs::rtcm_error::RtcmError;
use rtcm_rs::verif_hooks::assembler::Assembler;
use rtcm_rs::verif_hooks::bit_value::*;
use rtcm_rs::verif_hooks::parser::Parser;
use serde_json::{json, Value};

#[derive(Clone, Copy, PartialEq, Eq, Debug)]
pub enum Sign {
    U,
    I,
    SM,
}

pub trait Kind {
    type BV: BitValue;
    const NAME: &'static str;
    const BITS: usize;
    const SIGN: Sign;
    fn from_i128(v: i128) -> <Self::BV as BitValue>::ValueType;
    fn to_i128(v: <Self::BV as BitValue>::ValueType) -> i128;
}

macro_rules! kind {
    ($k:ident, $bv:ident, $t:ty, $bits:expr, $sign:expr) => {
        pub struct $k;
        impl Kind for $k {
            type BV = $bv;
            const NAME: &'static str = stringify!($bv);
            const BITS: usize = $bits;
            const SIGN: Sign = $sign;
            fn from_i128(v: i128) -> $t {
                v as $t
            }
            fn to_i128(v: $t) -> i128 {
                v as i128
            }
        }
    };
}
kind!(KU8, U8, u8, 8, Sign::U);
kind!(KU16, U16, u16, 16, Sign::U);
kind!(KU32, U32, u32, 32, Sign::U);
kind!(KU64, U64, u64, 64, Sign::U);
kind!(KI8, I8, i8, 8, Sign::I);
kind!(KI16, I16, i16, 16, Sign::I);
kind!(KI32, I32, i32, 32, Sign::I);
kind!(KI64, I64, i64, 64, Sign::I);
kind!(KSM8, SM8, i8, 8, Sign::SM);
kind!(KSM16, SM16, i16, 16, Sign::SM);
kind!(KSM32, SM32, i32, 32, Sign::SM);
kind!(KSM64, SM64, i64, 64, Sign::SM);

pub const KIND_NAMES: [&str; 12] = ["U8", "U16", "U32", "U64", "I8", "I16", "I32", "I64", "SM8", "SM16", "SM32", "SM64"];

const BUF: usize = 28; // 224 bits: offsets up to 135 + 64 bits + slack

fn range(sign: Sign, w: usize) -> (i128, i128) {
    match sign {
        Sign::U => (0, (1i128 << w) - 1),
        Sign::I => (-(1i128 << (w - 1)), (1i128 << (w - 1)) - 1),
        Sign::SM => (-((1i128 << (w - 1)) - 1), (1i128 << (w - 1)) - 1),
    }
}

fn ref_pattern(sign: Sign, v: i128, w: usize) -> u128 {
    match sign {
        Sign::U => v as u128,
        Sign::I => bits::twos_pattern(v, w),
        Sign::SM => bits::sm_pattern(v, w),
    }
}

fn ref_value(sign: Sign, p: u128, w: usize) -> i128 {
    match sign {
        Sign::U => p as i128,
        Sign::I => bits::twos_value(p, w),
        Sign::SM => bits::sm_value(p, w),
    }
}

fn background(rng: &mut Rng, which: usize) -> [u8; BUF] {
    let mut b = [0u8; BUF];
    match which {
        0 => {}
        1 => b = [0xFF; BUF],
        2 => b = [0xAA; BUF],
        _ => rng.fill(&mut b),
    }
    b
}

struct Case {
    kind: &'static str,
    w: usize,
    o: usize,
    buflen: usize,
}

fn replay_value(c: &Case, bg: &[u8], v: i128, pat: Option<u128>) -> Value {
    json!({"kind":"bitfield","carrier":c.kind,"w":c.w,"o":c.o,"buflen":c.buflen,"background":hex(bg),"value":v.to_string(),"pattern":pat.map(|p| p.to_string())})
}

/// put v (representable) at offset o, then parse it back
fn check_put<K: Kind>(ctx: &mut Ctx, c: &Case, bg: &[u8], v: i128) {
    ctx.eval();
    let mut buf = bg.to_vec();
    let val = K::from_i128(v);
    let r = guard(|| {
        let mut asm = Assembler::new(&mut buf[..], c.o);
        let r = asm.put::<K::BV>(val, c.w);
        let off = asm.offset();
        (r.is_ok(), off)
    });
    let (ok, off) = match r {
        Ok(x) => x,
        Err(p) => {
            ctx.panic_violation("C07.no_panic", &p, &format!("put::<{}>(v={}, w={}) at o={}", c.kind, v, c.w, c.o), replay_value(c, bg, v, None));
            return;
        }
    };
    let mut exp = bg.to_vec();
    bits::write(&mut exp, c.o, c.w, ref_pattern(K::SIGN, v, c.w));
    if !ok || off != c.o + c.w || buf != exp {
        let what = if !ok {
            "put_failed"
        } else if off != c.o + c.w {
            "cursor"
        } else {
            // which bits differ: inside or outside the field?
            let mut outside = false;
            for i in 0..buf.len() * 8 {
                if bits::get_bit(&buf, i) != bits::get_bit(&exp, i) && !(i >= c.o && i < c.o + c.w) {
                    outside = true;
                }
            }
            if outside {
                "neighbour_bits_touched"
            } else {
                "field_bits_wrong"
            }
        };
        ctx.violation(
            format!("C07.put|{}|{}", c.kind, what),
            "C07.put",
            format!("put::<{}>(v={}, w={}) at o={}: ok={} cursor={} buffer={} expected={}", c.kind, v, c.w, c.o, ok, off, hex(&buf), hex(&exp)),
            replay_value(c, bg, v, None),
        );
        return;
    }
    // read back
    let r = guard(|| {
        let mut par = Parser::new(&buf[..], c.o);
        let r = par.parse::<K::BV>(c.w);
        (r.ok().map(K::to_i128), par.offset())
    });
    match r {
        Err(p) => ctx.panic_violation("C07.no_panic", &p, &format!("parse::<{}>(w={}) at o={}", c.kind, c.w, c.o), replay_value(c, bg, v, None)),
        Ok((got, off)) => {
            if got != Some(v) || off != c.o + c.w {
                ctx.violation(
                    format!("C07.parse_after_put|{}", c.kind),
                    "C07.parse_after_put",
                    format!("parse::<{}>(w={}) at o={} after put({}): got {:?}, cursor {}", c.kind, c.w, c.o, v, got, off),
                    replay_value(c, bg, v, None),
                );
            }
        }
    }
}

/// parse an arbitrary pattern written by the reference writer
fn check_parse<K: Kind>(ctx: &mut Ctx, c: &Case, bg: &[u8], pat: u128) {
    ctx.eval();
    let mut buf = bg.to_vec();
    bits::write(&mut buf, c.o, c.w, pat);
    let exp = ref_value(K::SIGN, pat, c.w);
    let r = guard(|| {
        let mut par = Parser::new(&buf[..], c.o);
        let r = par.parse::<K::BV>(c.w);
        (r.ok().map(K::to_i128), par.offset())
    });
    match r {
        Err(p) => ctx.panic_violation("C07.no_panic", &p, &format!("parse::<{}>(w={}) at o={}", c.kind, c.w, c.o), replay_value(c, bg, 0, Some(pat))),
        Ok((got, off)) => {
            if got != Some(exp) || off != c.o + c.w {
                ctx.violation(
                    format!("C07.parse|{}", c.kind),
                    "C07.parse",
                    format!("parse::<{}>(w={}) at o={} of pattern {:#x}: got {:?} expected {}, cursor {}", c.kind, c.w, c.o, pat, got, exp, off),
                    replay_value(c, bg, 0, Some(pat)),
                );
            }
        }
    }
}

/// a read or write past the end: error, buffer and cursor unchanged
fn check_overflow<K: Kind>(ctx: &mut Ctx, c: &Case, bg: &[u8], v: i128) {
    ctx.eval();
    ctx.count("overflow_cases");
    let mut buf = bg[..c.buflen].to_vec();
    let val = K::from_i128(v);
    let r = guard(|| {
        let mut asm = Assembler::new(&mut buf[..], c.o);
        let r = asm.put::<K::BV>(val, c.w);
        let off = asm.offset();
        (matches!(r, Err(RtcmError::BufferOverflow)), r.is_ok(), off)
    });
    match r {
        Err(p) => {
            ctx.panic_violation("C07.no_panic", &p, &format!("put::<{}>(w={}) at o={} into {} bytes (must overflow)", c.kind, c.w, c.o, c.buflen), replay_value(c, bg, v, None));
        }
        Ok((is_bo, is_ok, off)) => {
            if !is_bo || off != c.o || buf[..] != bg[..c.buflen] {
                ctx.violation(
                    format!("C07.put_overflow|{}|{}", c.kind, if is_ok { "accepted" } else if !is_bo { "wrong_error" } else if off != c.o { "cursor_moved" } else { "buffer_changed" }),
                    "C07.put_overflow",
                    format!("put::<{}>(w={}) at o={} into a {}-byte buffer: BufferOverflow={} ok={} cursor={} buffer_changed={}", c.kind, c.w, c.o, c.buflen, is_bo, is_ok, off, buf[..] != bg[..c.buflen]),
                    replay_value(c, bg, v, None),
                );
            }
        }
    }
    let r = guard(|| {
        let mut par = Parser::new(&bg[..c.buflen], c.o);
        let r = par.parse::<K::BV>(c.w);
        (matches!(r, Err(RtcmError::BufferOverflow)), par.offset())
    });
    match r {
        Err(p) => ctx.panic_violation("C07.no_panic", &p, &format!("parse::<{}>(w={}) at o={} from {} bytes (must overflow)", c.kind, c.w, c.o, c.buflen), replay_value(c, bg, v, None)),
        Ok((is_bo, off)) => {
            if !is_bo || off != c.o {
                ctx.violation(
                    format!("C07.parse_overflow|{}", c.kind),
                    "C07.parse_overflow",
                    format!("parse::<{}>(w={}) at o={} from a {}-byte buffer: BufferOverflow={} cursor={}", c.kind, c.w, c.o, c.buflen, is_bo, off),
                    replay_value(c, bg, v, None),
                );
            }
        }
    }
}

fn values_for(rng: &mut Rng, sign: Sign, w: usize, n_random: usize) -> (Vec<i128>, bool) {
    let (lo, hi) = range(sign, w);
    if w <= 12 {
        return ((lo..=hi).collect(), true);
    }
    let mut v: Vec<i128> = vec![lo, lo + 1, lo + 2, hi, hi - 1, hi - 2, 0, 1, 2];
    if lo < 0 {
        v.extend([-1, -2, -3]);
    }
    for i in 0..w.min(127) {
        let one = 1i128 << i;
        for c in [one, one - 1, one + 1, -one, -one + 1, -one - 1] {
            if c >= lo && c <= hi {
                v.push(c);
            }
        }
    }
    let span = (hi - lo + 1) as u128;
    for _ in 0..n_random {
        let r = ((rng.u64() as u128) << 64 | rng.u64() as u128) % span;
        v.push(lo + r as i128);
    }
    // alternating patterns
    for p in [0x5555_5555_5555_5555u64 as i128, 0x2AAA_AAAA_AAAA_AAAAu64 as i128] {
        let m = p & ((1i128 << (w - 1)) - 1);
        if m >= lo && m <= hi {
            v.push(m);
        }
        if -m >= lo {
            v.push(-m);
        }
    }
    v.sort();
    v.dedup();
    (v, false)
}

fn run_kind<K: Kind>(ctx: &mut Ctx, rng: &mut Rng, w: usize, max_off: usize, n_bg: usize, n_random: usize) {
    let (vals, all) = values_for(rng, K::SIGN, w, n_random);
    if all {
        ctx.count_dyn(format!("widths_with_all_values:{}", K::NAME));
    }
    let span_mask: u128 = if w >= 128 { u128::MAX } else { (1u128 << w) - 1 };
    for o in 0..=max_off {
        let c = Case { kind: K::NAME, w, o, buflen: BUF };
        for b in 0..n_bg {
            let bg = background(rng, b);
            for &v in &vals {
                check_put::<K>(ctx, &c, &bg, v);
            }
            // arbitrary patterns through the reader (includes sign-magnitude negative zero)
            if w <= 12 {
                for p in 0..=span_mask {
                    check_parse::<K>(ctx, &c, &bg, p);
                }
                ctx.nontrivial_enumerated(vals.len() as u64 + span_mask as u64 + 1);
            } else {
                for &v in vals.iter().take(40) {
                    let p = (v as u128).wrapping_mul(0x9E37_79B9_7F4A_7C15) & span_mask;
                    check_parse::<K>(ctx, &c, &bg, p);
                }
                check_parse::<K>(ctx, &c, &bg, span_mask);
                check_parse::<K>(ctx, &c, &bg, 1u128 << (w - 1));
                ctx.nontrivial_enumerated(vals.len() as u64);
            }
        }
        // overflow path: buffers too short for o + w, by 1 bit up to several bytes
        let need_bits = o + w;
        for short in [1usize, 2, 9] {
            let avail_bytes = (need_bits - 1) / 8; // one byte too few
            let bl = avail_bytes.saturating_sub(short - 1);
            let bg = background(rng, 3);
            let c2 = Case { kind: K::NAME, w, o, buflen: bl };
            check_overflow::<K>(ctx, &c2, &bg, vals[vals.len() / 2]);
        }
    }
    ctx.count_dyn(format!("configs:{}", K::NAME));
    if ctx.want_sample() {
        ctx.sample(|| json!({"carrier": K::NAME, "width": w, "offsets": format!("0..={}", max_off), "backgrounds": n_bg, "values": vals.len(), "all_values_of_width": all, "first_values": vals.iter().take(6).map(|x| x.to_string()).collect::<Vec<_>>()}));
    }
}

fn dispatch(kind: usize, ctx: &mut Ctx, rng: &mut Rng, w: usize, max_off: usize, n_bg: usize, n_random: usize) {
    match kind {
        0 => run_kind::<KU8>(ctx, rng, w, max_off, n_bg, n_random),
        1 => run_kind::<KU16>(ctx, rng, w, max_off, n_bg, n_random),
        2 => run_kind::<KU32>(ctx, rng, w, max_off, n_bg, n_random),
        3 => run_kind::<KU64>(ctx, rng, w, max_off, n_bg, n_random),
        4 => run_kind::<KI8>(ctx, rng, w, max_off, n_bg, n_random),
        5 => run_kind::<KI16>(ctx, rng, w, max_off, n_bg, n_random),
        6 => run_kind::<KI32>(ctx, rng, w, max_off, n_bg, n_random),
        7 => run_kind::<KI64>(ctx, rng, w, max_off, n_bg, n_random),
        8 => run_kind::<KSM8>(ctx, rng, w, max_off, n_bg, n_random),
        9 => run_kind::<KSM16>(ctx, rng, w, max_off, n_bg, n_random),
        10 => run_kind::<KSM32>(ctx, rng, w, max_off, n_bg, n_random),
        _ => run_kind::<KSM64>(ctx, rng, w, max_off, n_bg, n_random),
    }
}

const KIND_BITS: [usize; 12] = [8, 16, 32, 64, 8, 16, 32, 64, 8, 16, 32, 64];

/// one put on an existing assembler (any carrier), returning success and the cursor
fn put_dyn(asm: &mut Assembler, kind: usize, v: i128, w: usize) -> (bool, usize) {
    macro_rules! go {
        ($K:ty) => {{
            let r = asm.put::<<$K as Kind>::BV>(<$K as Kind>::from_i128(v), w);
            (r.is_ok(), asm.offset())
        }};
    }
    match kind {
        0 => go!(KU8),
        1 => go!(KU16),
        2 => go!(KU32),
        3 => go!(KU64),
        4 => go!(KI8),
        5 => go!(KI16),
        6 => go!(KI32),
        7 => go!(KI64),
        8 => go!(KSM8),
        9 => go!(KSM16),
        10 => go!(KSM32),
        _ => go!(KSM64),
    }
}

fn parse_dyn(par: &mut Parser, kind: usize, w: usize) -> (Option<i128>, usize) {
    macro_rules! go {
        ($K:ty) => {{
            let r = par.parse::<<$K as Kind>::BV>(w);
            (r.ok().map(<$K as Kind>::to_i128), par.offset())
        }};
    }
    match kind {
        0 => go!(KU8),
        1 => go!(KU16),
        2 => go!(KU32),
        3 => go!(KU64),
        4 => go!(KI8),
        5 => go!(KI16),
        6 => go!(KI32),
        7 => go!(KI64),
        8 => go!(KSM8),
        9 => go!(KSM16),
        10 => go!(KSM32),
        _ => go!(KSM64),
    }
}

const KIND_SIGN: [Sign; 12] = [Sign::U, Sign::U, Sign::U, Sign::U, Sign::I, Sign::I, Sign::I, Sign::I, Sign::SM, Sign::SM, Sign::SM, Sign::SM];

/// A message body is written by many consecutive puts on ONE assembler and read by many
/// consecutive parses on ONE parser: model-based sequences (2..14 fields back to back, any mix
/// of carriers and widths, wide fields included), the buffer compared with the reference
/// after every single put.
fn check_sequence(ctx: &mut Ctx, rng: &mut Rng) {
    ctx.eval();
    let len = 48usize;
    let mut bg = vec![0u8; len];
    match rng.below(3) {
        0 => {}
        1 => bg.iter_mut().for_each(|b| *b = 0xFF),
        _ => rng.fill(&mut bg),
    }
    // one sequence in four is "small field, very wide field, small field, ..." starting near an
    // 8-byte boundary: several fields sharing one machine word with a wide one among them
    let packed = rng.chance(1, 4);
    let start = if packed { 64 * rng.usize_below(2) + rng.usize_below(8) } else { rng.usize_below(24) };
    let nf = rng.range(2, 14) as usize;
    let mut fields: Vec<(usize, usize, i128)> = Vec::new(); // kind, width, value
    let mut total = start;
    for fi in 0..nf {
        let kind = if packed { if fi % 2 == 1 { [3usize, 7, 11][rng.usize_below(3)] } else { rng.usize_below(12) } } else { rng.usize_below(12) };
        let bits_max = KIND_BITS[kind];
        let w = if packed {
            if fi % 2 == 1 {
                rng.range(48, 64) as usize
            } else {
                rng.range(1, 5.min(bits_max as i64)) as usize
            }
        } else {
            0
        };
        let w = if w != 0 { w } else { match rng.below(6) {
            0 => bits_max,
            1 => rng.range((bits_max as i64 - 7).max(1), bits_max as i64) as usize,
            2 => rng.range(1, 8.min(bits_max as i64)) as usize,
            _ => rng.range(1, bits_max as i64) as usize,
        } };
        if total + w > len * 8 {
            break;
        }
        let (lo, hi) = range(KIND_SIGN[kind], w);
        let v = match rng.below(5) {
            0 => 0,
            1 => lo,
            2 => hi,
            _ => lo + ((((rng.u64() as u128) << 64) | rng.u64() as u128) % ((hi - lo) as u128 + 1)) as i128,
        };
        fields.push((kind, w, v));
        total += w;
    }
    let mut h = crate::rng::hash_bytes(&bg);
    for f in &fields {
        h = crate::rng::mix(h, (f.0 as u64) << 56 ^ (f.1 as u64) << 48 ^ f.2 as u64);
    }
    ctx.nontrivial(h);
    let replay = || json!({"kind":"sequence","background":hex(&bg),"start":start,"fields":fields.iter().map(|f| json!([KIND_NAMES[f.0], f.1, f.2.to_string()])).collect::<Vec<_>>()});
    let mut buf = bg.clone();
    let mut exp = bg.clone();
    let r = guard(|| {
        let mut bad: Option<(usize, String)> = None;
        let mut asm = Assembler::new(&mut buf[..], start);
        let mut pos = start;
        let mut snapshots: Vec<(bool, usize)> = Vec::new();
        for (i, &(kind, w, v)) in fields.iter().enumerate() {
            let (ok, off) = put_dyn(&mut asm, kind, v, w);
            snapshots.push((ok, off));
            pos += w;
            if !ok || off != pos {
                bad = Some((i, format!("put #{} ({} w={} v={}) ok={} cursor={} expected {}", i, KIND_NAMES[kind], w, v, ok, off, pos)));
                break;
            }
        }
        bad
    });
    match r {
        Err(p) => {
            ctx.panic_violation("C07.no_panic", &p, "a sequence of puts on one assembler", replay());
            return;
        }
        Ok(Some((_, why))) => {
            ctx.violation("C07.sequence|put_status".into(), "C07.sequence", why, replay());
            return;
        }
        Ok(None) => {}
    }
    // the final buffer must equal the reference; to localise, rebuild the reference step by step
    let mut pos = start;
    for &(kind, w, v) in &fields {
        bits::write(&mut exp, pos, w, ref_pattern(KIND_SIGN[kind], v, w));
        pos += w;
    }
    if buf != exp {
        // which field is wrong?
        let mut pos = start;
        let mut culprit = String::from("bits outside all fields");
        for (i, &(kind, w, _v)) in fields.iter().enumerate() {
            if bits::read(&buf, pos, w) != bits::read(&exp, pos, w) {
                culprit = format!("field #{} ({} w={} at bit {})", i, KIND_NAMES[kind], w, pos);
                break;
            }
            pos += w;
        }
        ctx.violation(
            "C07.sequence|buffer".into(),
            "C07.sequence",
            format!("after {} consecutive puts on one assembler the buffer differs from the reference in {}: got {} expected {}", fields.len(), culprit, hex(&buf), hex(&exp)),
            replay(),
        );
        return;
    }
    // read everything back with one parser
    let r = guard(|| {
        let mut par = Parser::new(&exp[..], start);
        let mut pos = start;
        for (i, &(kind, w, v)) in fields.iter().enumerate() {
            let (got, off) = parse_dyn(&mut par, kind, w);
            pos += w;
            if got != Some(v) || off != pos {
                return Some(format!("parse #{} ({} w={}): got {:?} expected {}, cursor {} expected {}", i, KIND_NAMES[kind], w, got, v, off, pos));
            }
        }
        None
    });
    match r {
        Err(p) => ctx.panic_violation("C07.no_panic", &p, "a sequence of parses on one parser", replay()),
        Ok(Some(why)) => ctx.violation("C07.sequence|parse".into(), "C07.sequence", why, replay()),
        Ok(None) => {}
    }
    ctx.count("sequences_of_puts_and_parses");
    ctx.count_n("fields_in_sequences", fields.len() as u64);
}


/// One parser, a history of reads, cursor skips (`consume_bits`, used by the text decoder) and reads that must be
/// refused: after any history the parser's view is the pair (buffer, cursor) and nothing else.
/// ops: [0, kind, w] = parse, [1, k, 0] = consume_bits(k)
fn check_parser_history(ctx: &mut Ctx, buf: &[u8], start: usize, ops: &[(usize, usize, usize)]) {
    ctx.eval();
    let nbits = buf.len() * 8;
    let replay = || json!({"kind":"parser_history","buffer":hex(buf),"start":start,"ops":ops.iter().map(|o| json!([o.0, o.1, o.2])).collect::<Vec<_>>()});
    let r = guard(|| {
        let mut par = Parser::new(buf, start);
        let mut pos = start;
        let mut refused = 0u64;
        let mut refused_after_skip = 0u64;
        let mut skipped = false;
        for (i, &(op, a, w)) in ops.iter().enumerate() {
            if op == 1 {
                par.consume_bits(a);
                pos += a;
                skipped = true;
                if par.offset() != pos {
                    return Err(format!("op #{}: consume_bits({}) left the cursor at {} (expected {})", i, a, par.offset(), pos));
                }
                continue;
            }
            let kind = a;
            macro_rules! go {
                ($K:ty) => {{
                    let r = par.parse::<<$K as Kind>::BV>(w);
                    (matches!(r, Err(RtcmError::BufferOverflow)), r.ok().map(<$K as Kind>::to_i128))
                }};
            }
            let (is_bo, got) = match kind {
                0 => go!(KU8),
                1 => go!(KU16),
                2 => go!(KU32),
                3 => go!(KU64),
                4 => go!(KI8),
                5 => go!(KI16),
                6 => go!(KI32),
                7 => go!(KI64),
                8 => go!(KSM8),
                9 => go!(KSM16),
                10 => go!(KSM32),
                _ => go!(KSM64),
            };
            if pos + w <= nbits {
                let exp = ref_value(KIND_SIGN[kind], bits::read(buf, pos, w), w);
                pos += w;
                if got != Some(exp) || par.offset() != pos {
                    return Err(format!("op #{}: parse::<{}>({}) at bit {} of {}: got {:?} (expected {}), cursor {} (expected {})", i, KIND_NAMES[kind], w, pos - w, nbits, got, exp, par.offset(), pos));
                }
            } else {
                refused += 1;
                if skipped {
                    refused_after_skip += 1;
                }
                if !is_bo || par.offset() != pos {
                    return Err(format!("op #{}: parse::<{}>({}) at bit {} of {} must be refused with BufferOverflow and leave the cursor: got {:?} refused={} cursor {}", i, KIND_NAMES[kind], w, pos, nbits, got, is_bo, par.offset()));
                }
            }
        }
        Ok((refused, refused_after_skip))
    });
    match r {
        Err(p) => ctx.panic_violation("C07.no_panic", &p, "a history of parse / consume_bits calls on one parser", replay()),
        Ok(Err(why)) => ctx.violation("C07.parser_history".into(), "C07.parser_history", why, replay()),
        Ok(Ok((refused, ras))) => {
            ctx.count("parser_histories");
            ctx.count_n("parser_history_reads_refused", refused);
            ctx.count_n("parser_history_reads_refused_after_a_skip", ras);
        }
    }
}

/// One assembler, a history of writes some of which must be refused: a refused write changes nothing -- not the
/// buffer, not the cursor, and not the assembler's ability to take the next write that fits.
/// ops: (kind, w, value)
fn check_assembler_history(ctx: &mut Ctx, bg: &[u8], start: usize, ops: &[(usize, usize, i128)]) {
    ctx.eval();
    let nbits = bg.len() * 8;
    let replay = || json!({"kind":"assembler_history","background":hex(bg),"start":start,"ops":ops.iter().map(|o| json!([KIND_NAMES[o.0], o.1, o.2.to_string()])).collect::<Vec<_>>()});
    let mut buf = bg.to_vec();
    let mut exp = bg.to_vec();
    let r = guard(|| {
        let mut asm = Assembler::new(&mut buf[..], start);
        let mut pos = start;
        let mut refused = 0u64;
        let mut accepted_after_refusal = 0u64;
        for (i, &(kind, w, v)) in ops.iter().enumerate() {
            macro_rules! go {
                ($K:ty) => {{
                    let r = asm.put::<<$K as Kind>::BV>(<$K as Kind>::from_i128(v), w);
                    (r.is_ok(), matches!(r, Err(RtcmError::BufferOverflow)))
                }};
            }
            let (ok, is_bo) = match kind {
                0 => go!(KU8),
                1 => go!(KU16),
                2 => go!(KU32),
                3 => go!(KU64),
                4 => go!(KI8),
                5 => go!(KI16),
                6 => go!(KI32),
                7 => go!(KI64),
                8 => go!(KSM8),
                9 => go!(KSM16),
                10 => go!(KSM32),
                _ => go!(KSM64),
            };
            if pos + w <= nbits {
                if !ok || asm.offset() != pos + w {
                    return Err(format!("op #{}: put::<{}>({}, w={}) at bit {} of {} fits but ok={} cursor={} (expected {}); {} write(s) were refused before", i, KIND_NAMES[kind], v, w, pos, nbits, ok, asm.offset(), pos + w, refused));
                }
                bits::write(&mut exp, pos, w, ref_pattern(KIND_SIGN[kind], v, w));
                pos += w;
                if refused > 0 {
                    accepted_after_refusal += 1;
                }
            } else {
                refused += 1;
                if !is_bo || asm.offset() != pos {
                    return Err(format!("op #{}: put::<{}>(w={}) at bit {} of {} must be refused with BufferOverflow and leave the cursor: ok={} refused={} cursor={}", i, KIND_NAMES[kind], w, pos, nbits, ok, is_bo, asm.offset()));
                }
            }
        }
        Ok((refused, accepted_after_refusal))
    });
    match r {
        Err(p) => ctx.panic_violation("C07.no_panic", &p, "a history of puts on one assembler", replay()),
        Ok(Err(why)) => ctx.violation("C07.assembler_history|status".into(), "C07.assembler_history", why, replay()),
        Ok(Ok((refused, after))) => {
            if buf != exp {
                ctx.violation("C07.assembler_history|buffer".into(), "C07.assembler_history", format!("after {} puts ({} refused) the buffer is {} but the reference gives {}", ops.len(), refused, hex(&buf), hex(&exp)), replay());
            }
            ctx.count("assembler_histories");
            ctx.count_n("assembler_history_writes_refused", refused);
            ctx.count_n("assembler_history_writes_accepted_after_a_refusal", after);
        }
    }
}

fn random_assembler_history(ctx: &mut Ctx, rng: &mut Rng) {
    // mostly small buffers; one in twelve has the size of a whole message body / frame buffer, written near its end
    let big = rng.chance(1, 12);
    let len = if big { *rng.pick(&[1021usize, 1022, 1023, 1024, 1025, 1026, 1029, 2048]) } else { rng.range(1, 40) as usize };
    let mut bg = vec![0u8; len];
    match rng.below(3) {
        0 => {}
        1 => bg.iter_mut().for_each(|b| *b = 0xFF),
        _ => rng.fill(&mut bg),
    }
    let start = if big { len * 8 - rng.range(1, 300) as usize } else { rng.usize_below(17.min(len * 8)) };
    if big {
        ctx.count("assembler_histories_at_the_end_of_a_body_sized_buffer");
    }
    let n = rng.range(2, 16) as usize;
    let mut ops = Vec::with_capacity(n);
    let mut pos = start;
    for _ in 0..n {
        let left = (len * 8).saturating_sub(pos);
        let kind = rng.usize_below(12);
        let bm = KIND_BITS[kind];
        let w = match rng.below(4) {
            // aim at the end of the buffer: the last fitting width, one more, a few more
            0 => (left + rng.usize_below(3)).clamp(1, bm),
            1 => rng.range(1, 8.min(bm as i64)) as usize,
            _ => rng.range(1, bm as i64) as usize,
        };
        let (lo, hi) = range(KIND_SIGN[kind], w);
        let v = match rng.below(4) {
            0 => lo,
            1 => hi,
            _ => lo + ((((rng.u64() as u128) << 64) | rng.u64() as u128) % ((hi - lo) as u128 + 1)) as i128,
        };
        ops.push((kind, w, v));
        if pos + w <= len * 8 {
            pos += w;
        }
    }
    let mut h = crate::rng::hash_bytes(&bg);
    for o in &ops {
        h = crate::rng::mix(h, (o.0 as u64) << 56 ^ (o.1 as u64) << 48 ^ o.2 as u64);
    }
    ctx.nontrivial(h);
    check_assembler_history(ctx, &bg, start, &ops);
}

fn random_parser_history(ctx: &mut Ctx, rng: &mut Rng) {
    let big = rng.chance(1, 12);
    let len = if big { *rng.pick(&[1021usize, 1022, 1023, 1024, 1025, 1026, 1029, 2048]) } else { rng.range(1, 40) as usize };
    let buf = rng.bytes(len);
    let start = if big { len * 8 - rng.range(1, 300) as usize } else { rng.usize_below(17.min(len * 8)) };
    let n = rng.range(2, 16) as usize;
    let mut ops = Vec::with_capacity(n);
    let mut pos = start;
    for _ in 0..n {
        let left = (len * 8).saturating_sub(pos);
        if rng.chance(1, 4) {
            // skips: small, to just before the end, exactly to the end, past the end
            let k = match rng.below(5) {
                0 => rng.usize_below(9),
                1 => left.saturating_sub(rng.usize_below(9)),
                2 => left,
                3 => left + rng.usize_below(70),
                _ => rng.usize_below(left + 1),
            };
            ops.push((1usize, k, 0usize));
            pos += k;
        } else {
            let kind = rng.usize_below(12);
            let bm = KIND_BITS[kind];
            let w = match rng.below(4) {
                // aim at the end of the buffer: the last fitting width, one more, a few more
                0 => (left + rng.usize_below(3)).clamp(1, bm),
                1 => rng.range(1, 8.min(bm as i64)) as usize,
                _ => rng.range(1, bm as i64) as usize,
            };
            ops.push((0usize, kind, w));
            if pos + w <= len * 8 {
                pos += w;
            }
        }
    }
    let mut h = crate::rng::hash_bytes(&buf);
    for o in &ops {
        h = crate::rng::mix(h, (o.0 as u64) << 40 ^ (o.1 as u64) << 20 ^ o.2 as u64);
    }
    ctx.nontrivial(h);
    check_parser_history(ctx, &buf, start, &ops);
}

pub fn run(p: &Params) -> Outcome {
    let seed = p.seed;
    let (max_off, n_bg, n_random) = if p.thorough { (135usize, 8usize, 4000usize) } else { (135, 4, 300) };
    let mut jobs: Vec<(usize, usize)> = Vec::new();
    for k in 0..12 {
        for w in 1..=KIND_BITS[k] {
            // sign-magnitude needs a sign bit and at least... w = 1 is the sign bit alone (only zero)
            jobs.push((k, w));
        }
    }
    // heavy jobs first for balance
    jobs.sort_by_key(|&(_, w)| std::cmp::Reverse(if w <= 12 { 1usize << w } else { 200 }));
    let n = jobs.len();
    let mut total = par::run_queue(p.workers, n, move |i, ctx| {
        let (k, w) = jobs[i];
        let mut rng = Rng::derive(seed, "C07", (k * 100 + w) as u64);
        dispatch(k, ctx, &mut rng, w, max_off, n_bg, n_random);
    });
    let n_seq = p.size(400_000, 40_000_000);
    let per = n_seq / p.workers as u64;
    let seqs = par::run(p.workers, move |w, _n, ctx| {
        let mut rng = Rng::derive(seed, "C07.seq", w as u64);
        for _ in 0..per {
            check_sequence(ctx, &mut rng);
            random_parser_history(ctx, &mut rng);
            random_assembler_history(ctx, &mut rng);
        }
    });
    total.merge(seqs);
    total.exhaustive_parts.push("carriers {U,I,SM}x{8,16,32,64} x every width 1..=carrier x every bit offset in the stated range; all representable values and all patterns for widths <= 12".into());
    if total.get("overflow_cases") == 0 {
        total.inconclusive("overflow path not exercised".into());
    }
    if total.get("assembler_history_writes_accepted_after_a_refusal") == 0 {
        total.inconclusive("no write was accepted after a refused one".into());
    }
    if total.get("parser_history_reads_refused_after_a_skip") == 0 {
        total.inconclusive("no read was refused after a cursor skip".into());
    }
    Outcome {
        ctx: total,
        rule: format!("enumeration: 12 carriers x widths 1..=carrier x offsets 0..={} x {} backgrounds x (all values and all bit patterns for w<=12; boundaries, one-hot +-1, alternating and {} random values above) + short-buffer overflow cases + sequences of 2..14 puts on one assembler / parses on one parser + parser histories mixing reads, consume_bits skips (to, up to and past the end) and reads that must be refused + assembler histories mixing writes that fit with writes that must be refused; oracle = BitRef reference writer/reader; every enumerated (carrier,w,o,background,value) is distinct by construction and counted exactly", max_off, n_bg, n_random),
        exhaustive: false,
        extra: json!({"hook": "rtcm_rs::verif_hooks::{assembler,parser,bit_value}"}),
    }
}

pub fn replay(_p: &Params, v: &Value) -> Outcome {
    let mut ctx = Ctx::new(0);
    if v["kind"] == "assembler_history" {
        let bg = unhex(v["background"].as_str().unwrap_or(""));
        let start = v["start"].as_u64().unwrap_or(0) as usize;
        let ops: Vec<(usize, usize, i128)> = v["ops"].as_array().map(|a| a.iter().map(|f| (KIND_NAMES.iter().position(|x| Some(*x) == f[0].as_str()).unwrap_or(0), f[1].as_u64().unwrap_or(1) as usize, f[2].as_str().and_then(|s| s.parse().ok()).unwrap_or(0))).collect()).unwrap_or_default();
        check_assembler_history(&mut ctx, &bg, start, &ops);
        return Outcome { ctx, rule: "replay of one recorded assembler history".into(), exhaustive: false, extra: json!({}) };
    }
    if v["kind"] == "parser_history" {
        let buf = unhex(v["buffer"].as_str().unwrap_or(""));
        let start = v["start"].as_u64().unwrap_or(0) as usize;
        let ops: Vec<(usize, usize, usize)> = v["ops"].as_array().map(|a| a.iter().map(|o| (o[0].as_u64().unwrap_or(0) as usize, o[1].as_u64().unwrap_or(0) as usize, o[2].as_u64().unwrap_or(1) as usize)).collect()).unwrap_or_default();
        check_parser_history(&mut ctx, &buf, start, &ops);
        return Outcome { ctx, rule: "replay of one recorded parser history".into(), exhaustive: false, extra: json!({}) };
    }
    if v["kind"] == "sequence" {
        // re-run the recorded sequence
        let bg = unhex(v["background"].as_str().unwrap_or(""));
        let start = v["start"].as_u64().unwrap_or(0) as usize;
        let fields: Vec<(usize, usize, i128)> = v["fields"].as_array().map(|a| a.iter().map(|f| (KIND_NAMES.iter().position(|x| Some(*x) == f[0].as_str()).unwrap_or(0), f[1].as_u64().unwrap_or(1) as usize, f[2].as_str().and_then(|s| s.parse().ok()).unwrap_or(0))).collect()).unwrap_or_default();
        ctx.eval();
        let mut buf = bg.clone();
        let mut exp = bg.clone();
        let r = guard(|| {
            let mut asm = Assembler::new(&mut buf[..], start);
            for &(kind, w, val) in &fields {
                let _ = put_dyn(&mut asm, kind, val, w);
            }
        });
        let mut pos = start;
        for &(kind, w, val) in &fields {
            bits::write(&mut exp, pos, w, ref_pattern(KIND_SIGN[kind], val, w));
            pos += w;
        }
        if r.is_err() || buf != exp {
            ctx.violation("C07.sequence|buffer".into(), "C07.sequence", format!("replayed sequence: got {} expected {}", hex(&buf), hex(&exp)), v.clone());
        }
        return Outcome { ctx, rule: "replay of one recorded sequence".into(), exhaustive: false, extra: json!({}) };
    }
    let carrier = v["carrier"].as_str().unwrap_or("");
    let k = KIND_NAMES.iter().position(|x| *x == carrier).unwrap_or(0);
    let w = v["w"].as_u64().unwrap_or(1) as usize;
    let o = v["o"].as_u64().unwrap_or(0) as usize;
    let buflen = v["buflen"].as_u64().unwrap_or(BUF as u64) as usize;
    let bg = unhex(v["background"].as_str().unwrap_or(""));
    let val: i128 = v["value"].as_str().and_then(|s| s.parse().ok()).unwrap_or(0);
    let pat: Option<u128> = v["pattern"].as_str().and_then(|s| s.parse().ok());
    macro_rules! go {
        ($K:ty) => {{
            let c = Case { kind: <$K as Kind>::NAME, w, o, buflen };
            if buflen < bg.len() || (o + w) > buflen * 8 {
                check_overflow::<$K>(&mut ctx, &c, &bg, val);
            } else if let Some(p) = pat {
                check_parse::<$K>(&mut ctx, &c, &bg, p);
            } else {
                check_put::<$K>(&mut ctx, &c, &bg, val);
            }
        }};
    }
    match k {
        0 => go!(KU8),
        1 => go!(KU16),
        2 => go!(KU32),
        3 => go!(KU64),
        4 => go!(KI8),
        5 => go!(KI16),
        6 => go!(KI32),
        7 => go!(KI64),
        8 => go!(KSM8),
        9 => go!(KSM16),
        10 => go!(KSM32),
        _ => go!(KSM64),
    }
    Outcome { ctx, rule: "replay of one recorded case".into(), exhaustive: false, extra: json!({}) }
}
