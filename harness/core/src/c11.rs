//! C11: quantisation picks the nearest representable value.
//! The grid is defined by the field's own decoder: g(k) = decode(pattern(k)).

use crate::c08::bias_frame;
use crate::fields::{Dec, FieldDef, FIELDS};
use crate::mon::{guard, Ctx};
use crate::oracle::bits;
use crate::par;
use crate::rng::Rng;
use crate::{Outcome, Params};
use rtcm_rs::msg::*;
use rtcm_rs::prelude::*;
use serde_json::{json, Value};

fn next_up32(x: f32) -> f32 {
    if x.is_nan() || x == f32::INFINITY {
        return x;
    }
    if x == 0.0 {
        return f32::from_bits(1);
    }
    let b = x.to_bits();
    if x > 0.0 {
        f32::from_bits(b + 1)
    } else {
        f32::from_bits(b - 1)
    }
}
fn next_down32(x: f32) -> f32 {
    -next_up32(-x)
}
fn next_up64(x: f64) -> f64 {
    if x.is_nan() || x == f64::INFINITY {
        return x;
    }
    if x == 0.0 {
        return f64::from_bits(1);
    }
    let b = x.to_bits();
    if x > 0.0 {
        f64::from_bits(b + 1)
    } else {
        f64::from_bits(b - 1)
    }
}
fn next_down64(x: f64) -> f64 {
    -next_up64(-x)
}

fn step_ulps(is32: bool, x: f64, n: i32) -> f64 {
    let mut v = x;
    for _ in 0..n.abs() {
        v = if is32 {
            if n > 0 {
                next_up32(v as f32) as f64
            } else {
                next_down32(v as f32) as f64
            }
        } else if n > 0 {
            next_up64(v)
        } else {
            next_down64(v)
        };
    }
    v
}

fn to_dec(is32: bool, x: f64, optional: bool) -> Dec {
    let _ = optional;
    if is32 {
        Dec::F32(x as f32)
    } else {
        Dec::F64(x)
    }
}

fn dec_f64(d: &Dec) -> Option<f64> {
    match d {
        Dec::F32(x) => Some(*x as f64),
        Dec::F64(x) => Some(*x),
        _ => None,
    }
}

/// inputs between a and b (both included), in the field's float type
fn inputs(rng: &mut Rng, is32: bool, a: f64, b: f64) -> Vec<f64> {
    let rt = |x: f64| if is32 { (x as f32) as f64 } else { x };
    let mid = rt(a + (b - a) / 2.0);
    let mut v = vec![a, b, mid];
    for n in [1, 2, 8] {
        v.push(step_ulps(is32, a, n));
        v.push(step_ulps(is32, b, -n));
        v.push(step_ulps(is32, mid, n));
        v.push(step_ulps(is32, mid, -n));
    }
    for _ in 0..6 {
        v.push(rt(a + (b - a) * rng.f64_unit()));
    }
    v.push(rt(a + (b - a) * 0.25));
    v.push(rt(a + (b - a) * 0.75));
    // "round" inputs: what a user types or gets from a coarser pipeline -- whole numbers, values that are exact in
    // single precision, values with a short mantissa, short decimals -- wherever the interval contains one
    for t in [0.1, 0.37, 0.5, 0.63, 0.9] {
        let x = a + (b - a) * t;
        v.push((x as f32) as f64);
        v.push(x.round());
        v.push((x * 10.0).round() / 10.0);
        v.push((x * 1000.0).round() / 1000.0);
        for keep in [8u32, 16, 24, 32] {
            let bits = x.to_bits() & !((1u64 << (52 - keep)) - 1);
            v.push(f64::from_bits(bits));
            v.push(f64::from_bits(bits + (1u64 << (52 - keep))));
        }
    }
    v.retain(|x| *x >= a && *x <= b && x.is_finite());
    v.sort_by(|x, y| x.partial_cmp(y).unwrap());
    v.dedup();
    v
}

struct Grid<'a> {
    name: String,
    is32: bool,
    kmin: i128,
    kmax: i128,
    /// decode of integer k
    domain: Vec<i128>,
    g: Box<dyn Fn(i128) -> Option<f64> + 'a>,
    /// encode real x -> integer on the wire, or error text
    e: Box<dyn Fn(f64) -> Result<i128, String> + 'a>,
    res_hint: f64,
    bias_hint: f64,
}

fn check_interval(ctx: &mut Ctx, rng: &mut Rng, gr: &Grid, k: i128, excess_max: &mut f64) {
    let replay = |x: f64| json!({"kind":"quantise","field":gr.name,"k":k.to_string(),"x_bits":format!("{:016x}", x.to_bits())});
    let (a, b) = match (guard(|| (gr.g)(k)), guard(|| (gr.g)(k + 1))) {
        (Ok(Some(a)), Ok(Some(b))) => (a, b),
        (Err(p), _) | (_, Err(p)) => {
            ctx.panic_violation("C11.no_panic", &p, &format!("decode of grid value {} of {}", k, gr.name), replay(0.0));
            return;
        }
        _ => {
            ctx.count("intervals_touching_absent_marker_skipped");
            return;
        }
    };
    if !(a < b) {
        ctx.violation(format!("C11.grid_monotone|{}", gr.name), "C11.grid_monotone", format!("field {}: g({}) = {:e} is not below g({}) = {:e}", gr.name, k, a, k + 1, b), replay(a));
        return;
    }
    let eps = if gr.is32 { (2.0f64).powi(-24) } else { (2.0f64).powi(-53) };
    let step = b - a;
    let xs = inputs(rng, gr.is32, a, b);
    let mut last_k: Option<(i128, f64)> = None;
    for &x in &xs {
        ctx.eval();
        let kk = match guard(|| (gr.e)(x)) {
            Err(p) => {
                ctx.panic_violation("C11.no_panic", &p, &format!("encode of {:e} in field {}", x, gr.name), replay(x));
                continue;
            }
            Ok(Err(er)) => {
                ctx.violation(format!("C11.in_range_refused|{}", gr.name), "C11.in_range_refused", format!("field {}: input {:e} between grid values g({})={:e} and g({})={:e} refused: {}", gr.name, x, k, a, k + 1, b, er), replay(x));
                continue;
            }
            Ok(Ok(kk)) => kk,
        };
        if kk != k && kk != k + 1 {
            let wrapped = (kk - k).abs() > 2;
            ctx.violation(
                format!("C11.neighbour|{}|{}", gr.name, if wrapped { "far" } else { "off_by_one" }),
                "C11.neighbour",
                format!("field {}: input {:e} lies between g({})={:e} and g({})={:e} but was encoded as {}", gr.name, x, k, a, k + 1, b, kk),
                replay(x),
            );
            continue;
        }
        let gk = if kk == k { a } else { b };
        let d = (x - gk).abs();
        let q = kk.abs() as f64;
        let slack = step * 4.0 * eps * q.max(1.0) + 4.0 * eps * (x.abs() + gr.bias_hint.abs() + step) + eps * d;
        let excess = d - step / 2.0;
        if excess / step > *excess_max {
            *excess_max = excess / step;
        }
        if excess > slack {
            ctx.violation(
                format!("C11.nearest|{}", gr.name),
                "C11.nearest",
                format!("field {}: input {:e} (between g({})={:e}, g({})={:e}) encoded as {} -> {:e}: distance {:e} exceeds half a step {:e} + slack {:e}", gr.name, x, k, a, k + 1, b, kk, gk, d, step / 2.0, slack),
                replay(x),
            );
        }
        if let Some((pk, px)) = last_k {
            if kk < pk {
                ctx.violation(format!("C11.monotone|{}", gr.name), "C11.monotone", format!("field {}: {:e} <= {:e} but encodings {} > {}", gr.name, px, x, pk, kk), replay(x));
            }
        }
        last_k = Some((kk, x));
    }
    ctx.nontrivial_enumerated(xs.len() as u64);
    let _ = gr.res_hint;
}

fn sample_ks(rng: &mut Rng, kmin: i128, kmax: i128, n: usize, domain: &[i128]) -> Vec<i128> {
    // intervals [k, k+1] with k in kmin..kmax-1
    let hi = kmax - 1;
    if hi < kmin {
        return vec![];
    }
    let span = (hi - kmin + 1) as u128;
    let mut v: Vec<i128> = Vec::new();
    if span <= (n as u128) * 2 {
        return (kmin..=hi).collect();
    }
    for d in 0..24 {
        v.push(kmin + d);
        v.push(hi - d);
        v.push(-12 + d);
    }
    let mut b = 1i128;
    while b < (1i128 << 40) {
        for c in [b - 2, b - 1, b, -b - 1, -b, -b + 1] {
            v.push(c);
        }
        b <<= 1;
    }
    // word boundaries of wide fields: every multiple of 2^32 in range (and a spread of multiples of 2^16), the
    // intervals just below and at them
    for (shift, cap) in [(32u32, 4096i128), (16, 512)] {
        let unit = 1i128 << shift;
        let (lo_m, hi_m) = (kmin.div_euclid(unit), hi.div_euclid(unit));
        let count = hi_m - lo_m + 1;
        let step = (count / cap).max(1);
        let mut mlt = lo_m;
        while mlt <= hi_m {
            for c in [mlt * unit - 2, mlt * unit - 1, mlt * unit] {
                v.push(c);
            }
            mlt += step;
        }
    }
    for _ in 0..n {
        let r = ((rng.u64() as u128) << 64 | rng.u64() as u128) % span;
        v.push(kmin + r as i128);
    }
    // domain-significant codes (a full week, round decimals, ...) and their neighbours
    for &k in domain {
        v.push(k - 1);
        v.push(k);
    }
    v.retain(|k| *k >= kmin && *k <= hi);
    v.sort();
    v.dedup();
    v
}

fn field_grid(f: &'static FieldDef) -> Grid<'static> {
    let (mut kmin, mut kmax) = f.k_range();
    if let Some(inv) = f.inv {
        if inv == kmin {
            kmin += 1;
        } else if inv == kmax {
            kmax -= 1;
        }
    }
    let is32 = f.dt == "f32";
    let w = f.len;
    Grid {
        name: f.id.to_string(),
        is32,
        kmin,
        kmax,
        domain: crate::fields::domain_codes(f),
        g: Box::new(move |k| {
            let mut b = [0u8; 16];
            bits::write16(&mut b, 11, w, f.int_pattern(k));
            match (f.dec)(&b, 11) {
                Ok((d, _)) => dec_f64(&d),
                Err(_) => None,
            }
        }),
        e: Box::new(move |x| {
            let mut b = [0u8; 16];
            match (f.enc)(&to_dec(is32, x, f.optional()), &mut b, 6) {
                Ok(_) => Ok(f.pattern_int(bits::read16(&b, 6, w))),
                Err(e) => Err(format!("{:?}", e)),
            }
        }),
        res_hint: f.res.unwrap_or(1.0),
        bias_hint: f.bias.unwrap_or(0.0),
    }
}

/// the three hand-written bias quantisers, observed through one-entry messages
fn bias_grid(number: u16) -> Grid<'static> {
    let w = if number == 1230 { 16usize } else { 14 };
    let kmin = -(1i128 << (w - 1));
    let kmax = (1i128 << (w - 1)) - 1;
    let value_bit = match number {
        1059 => 61 + 6 + 6 + 5 + 5,
        1065 => 58 + 6 + 5 + 5 + 5,
        _ => 25 + 4,
    };
    Grid {
        name: format!("msg{}_bias", number),
        is32: true,
        kmin,
        kmax,
        domain: vec![100, 1000, -100, -1000, 50, 500, 5000, -5000],
        g: Box::new(move |k| {
            let f = bias_frame(number, bits::twos_pattern(k, w) as u64, 0);
            let mf = MessageFrame::new(&f).ok()?;
            match mf.get_message() {
                Message::Msg1059(m) => m.biases.iter().next().map(|b| b.bias_m as f64),
                Message::Msg1065(m) => m.biases.iter().next().map(|b| b.bias_m as f64),
                Message::Msg1230(m) => m.glo_code_phase_biases.iter().next().map(|b| b.bias_m as f64),
                _ => None,
            }
        }),
        e: Box::new(move |x| {
            let m = match number {
                1059 => {
                    let mut t = Msg1059T::default();
                    t.biases.push(Msg1059CodeBias { satellite_id: 0, signal_id: GpsSigId::new(1, 'C'), bias_m: x as f32 });
                    Message::Msg1059(t)
                }
                1065 => {
                    let mut t = Msg1065T::default();
                    t.biases.push(Msg1065CodeBias { satellite_id: 0, signal_id: GloSigId::new(1, 'C'), bias_m: x as f32 });
                    Message::Msg1065(t)
                }
                _ => {
                    let mut t = Msg1230T::default();
                    t.glo_code_phase_biases.push(Msg1230CodePhaseBias { signal_id: GloSigId::new(2, 'P'), bias_m: x as f32 });
                    Message::Msg1230(t)
                }
            };
            let mut b = MessageBuilder::new();
            match b.build_message(&m) {
                Ok(fr) => Ok(bits::twos_value(bits::read(&fr[3..], value_bit, w), w)),
                Err(e) => Err(format!("{:?}", e)),
            }
        }),
        res_hint: if number == 1230 { 0.02 } else { 0.01 },
        bias_hint: 0.0,
    }
}

/// The same three quantisers observed inside a realistic list: the probed entry sits at a random place among other
/// entries (other satellites, other recognised signals with other biases and, for 1059/1065, valid signals these
/// messages have no code for, which their encoders skip).  Each entry's bias must be quantised on its own.
fn bias_in_list_grid(number: u16) -> Grid<'static> {
    use crate::oracle::sig::{pos_to_sig, SSR_GLO, SSR_GPS};
    let w = if number == 1230 { 16usize } else { 14 };
    let kmin = -(1i128 << (w - 1));
    let kmax = (1i128 << (w - 1)) - 1;
    let res: f64 = if number == 1230 { 0.02 } else { 0.01 };
    let inner = bias_grid(number);
    let table: &'static [(u8, u8, char)] = if number == 1059 { &SSR_GPS } else { &SSR_GLO };
    let c = if number == 1059 { 0usize } else { 1 };
    // valid signals of the constellation that the SSR table does not list
    let foreign: Vec<(u8, char)> = (1..=32u8).filter_map(|p| pos_to_sig(c, p)).filter(|s| !table.iter().any(|t| t.1 == s.0 && t.2 == s.1)).collect();
    Grid {
        name: format!("msg{}_bias_in_list", number),
        is32: true,
        kmin,
        kmax,
        domain: vec![100, 1000, -100, -1000, 50, 500, 5000, -5000],
        g: inner.g,
        e: Box::new(move |x| {
            let mut r = Rng::new(crate::rng::mix((x as f32).to_bits() as u64, number as u64));
            let nsat: u64 = if number == 1059 { 64 } else { 32 };
            let probe = (r.below(nsat) as u8, table[r.usize_below(table.len())]);
            // (satellite, band, attribute, bias)
            let mut others: Vec<(u8, u8, char, f32)> = Vec::new();
            let n_other = if number == 1230 { r.below(4) } else { r.below(14) } as usize;
            for _ in 0..n_other {
                let sat = if r.chance(1, 3) { probe.0 } else { r.below(nsat) as u8 };
                let v = (r.range(-8192, 8191) as f32) * 0.01 + (r.range(-49, 49) as f32) * 0.0001;
                if number != 1230 && !foreign.is_empty() && r.chance(1, 3) {
                    let f = foreign[r.usize_below(foreign.len())];
                    others.push((sat, f.0, f.1, v));
                } else {
                    let t = table[r.usize_below(table.len())];
                    let sat = if number == 1230 { probe.0 } else { sat };
                    if (sat, t.1, t.2) == (probe.0, (probe.1).1, (probe.1).2) || others.iter().any(|o| (o.0, o.1, o.2) == (sat, t.1, t.2)) {
                        continue;
                    }
                    others.push((sat, t.1, t.2, v));
                }
            }
            let at = r.usize_below(others.len() + 1);
            others.insert(at, (probe.0, (probe.1).1, (probe.1).2, x as f32));
            let m = match number {
                1059 => {
                    let mut t = Msg1059T::default();
                    for o in &others {
                        t.biases.push(Msg1059CodeBias { satellite_id: o.0, signal_id: GpsSigId::new(o.1, o.2), bias_m: o.3 });
                    }
                    Message::Msg1059(t)
                }
                1065 => {
                    let mut t = Msg1065T::default();
                    for o in &others {
                        t.biases.push(Msg1065CodeBias { satellite_id: o.0, signal_id: GloSigId::new(o.1, o.2), bias_m: o.3 });
                    }
                    Message::Msg1065(t)
                }
                _ => {
                    let mut t = Msg1230T::default();
                    for o in &others {
                        t.glo_code_phase_biases.push(Msg1230CodePhaseBias { signal_id: GloSigId::new(o.1, o.2), bias_m: o.3 });
                    }
                    Message::Msg1230(t)
                }
            };
            let mut b = MessageBuilder::new();
            let fr = match b.build_message(&m) {
                Ok(fr) => fr.to_vec(),
                Err(e) => return Err(format!("{:?} (list of {} entries)", e, others.len())),
            };
            let mf = MessageFrame::new(&fr).map_err(|e| format!("own frame rejected: {:?}", e))?;
            let found: Option<f32> = match mf.get_message() {
                Message::Msg1059(m) => m.biases.iter().find(|b| b.satellite_id == probe.0 && b.signal_id == GpsSigId::new((probe.1).1, (probe.1).2)).map(|b| b.bias_m),
                Message::Msg1065(m) => m.biases.iter().find(|b| b.satellite_id == probe.0 && b.signal_id == GloSigId::new((probe.1).1, (probe.1).2)).map(|b| b.bias_m),
                Message::Msg1230(m) => m.glo_code_phase_biases.iter().find(|b| b.signal_id == GloSigId::new((probe.1).1, (probe.1).2)).map(|b| b.bias_m),
                _ => None,
            };
            match found {
                Some(v) => Ok((v as f64 / res).round() as i128),
                None => Err(format!("the entry is missing from the decoded list of {} entries", others.len())),
            }
        }),
        res_hint: res,
        bias_hint: 0.0,
    }
}

pub fn run(p: &Params) -> Outcome {
    let seed = p.seed;
    let n_k = p.size(40_000, 2_000_000) as usize;
    let scaled: Vec<usize> = FIELDS.iter().enumerate().filter(|(_, f)| f.is_float() && f.res.is_some()).map(|(i, _)| i).collect();
    let n_scaled = scaled.len();
    let parts = if p.thorough { 16 } else { 4 };
    let njobs = (n_scaled + 6) * parts;
    let mut total = par::run_queue(p.workers, njobs, move |ji, ctx| {
        let fi = ji / parts;
        let part = ji % parts;
        let mut rng = Rng::derive(seed, "C11", ji as u64);
        let gr = if fi < n_scaled {
            field_grid(&FIELDS[scaled[fi]])
        } else if fi < n_scaled + 3 {
            bias_grid([1059u16, 1065, 1230][fi - n_scaled])
        } else {
            bias_in_list_grid([1059u16, 1065, 1230][fi - n_scaled - 3])
        };
        let ks = sample_ks(&mut rng, gr.kmin, gr.kmax, n_k / parts, &gr.domain);
        let mut excess_max = f64::NEG_INFINITY;
        for &k in &ks {
            check_interval(ctx, &mut rng, &gr, k, &mut excess_max);
        }
        ctx.max("excess_over_half_step_in_steps", excess_max);
        ctx.count_dyn_n(format!("intervals:{}", gr.name), ks.len() as u64);
        if part == 0 {
            ctx.count("scaled_fields");
            if ctx.want_sample() {
                ctx.sample(|| json!({"field": gr.name, "type": if gr.is32 {"f32"} else {"f64"}, "k_range": [gr.kmin.to_string(), gr.kmax.to_string()], "intervals_sampled": ks.len(), "inputs_per_interval": "grid points, +-1/2/8 ulps, half step +-1/2/8 ulps, quarter points, 6 random, and the round inputs inside the interval (whole numbers, single-precision-exact values, 8/16/24/32-bit mantissas, 1 and 3 decimals)", "g(0),g(1)": [(gr.g)(0), (gr.g)(1)]}));
            }
        }
    });
    if total.get("scaled_fields") < 100 {
        total.inconclusive(format!("only {} scaled fields found", total.get("scaled_fields")));
    }
    Outcome {
        ctx: total,
        rule: format!("every float-typed field with a resolution ({} from the scan) + the three bias quantisers through one-entry messages and as one entry at a random place in a list of up to 14 others (other satellites and signals, for 1059/1065 also valid signals those messages have no code for); for sampled k over the whole range (dense at the ends, around zero, powers of two and multiples of 2^32 / 2^16; all k when the range is small): inputs between g(k) and g(k+1) incl. half step +-ulps and round inputs (whole numbers, single-precision-exact values, short mantissas, short decimals); oracle: encoded value in {{k,k+1}}, |x-g| <= step/2 + slack (4 eps q step + 4 eps (|x|+|bias|+step)), monotone; inputs per interval are distinct by construction", n_scaled),
        exhaustive: false,
        extra: json!({"scaled_fields": n_scaled}),
    }
}

pub fn replay(_p: &Params, v: &Value) -> Outcome {
    let mut ctx = Ctx::new(0);
    let name = v["field"].as_str().unwrap_or("");
    let k: i128 = v["k"].as_str().and_then(|s| s.parse().ok()).unwrap_or(0);
    let gr = if let Some(f) = crate::fields::by_id(name) {
        Some(field_grid(f))
    } else if let Some(n) = name.strip_prefix("msg").and_then(|s| s.strip_suffix("_bias_in_list")).and_then(|s| s.parse::<u16>().ok()) {
        Some(bias_in_list_grid(n))
    } else if let Some(n) = name.strip_prefix("msg").and_then(|s| s.strip_suffix("_bias")).and_then(|s| s.parse::<u16>().ok()) {
        Some(bias_grid(n))
    } else {
        None
    };
    match gr {
        Some(gr) => {
            let mut rng = Rng::new(1);
            check_interval(&mut ctx, &mut rng, &gr, k, &mut f64::NEG_INFINITY.clone());
        }
        None => ctx.inconclusive("unknown field".into()),
    }
    Outcome { ctx, rule: "replay of one recorded interval".into(), exhaustive: false, extra: json!({}) }
}
