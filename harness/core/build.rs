//! Scans the tree's src/df/dfs.rs for `df!( ... );` blocks and generates a table of data
//! fields (id, types, width, parameters) with uniform encode/decode entry points that
//! go through the cfg(rtcm_rs_verif) hook re-export.  The field *list* follows the tree;
//! nothing about expected behaviour is derived from it (oracles live in src/).

use std::fmt::Write as _;
use std::path::PathBuf;

fn main() {
    let manifest = std::env::var("CARGO_MANIFEST_DIR").unwrap();
    let src = PathBuf::from(&manifest).join("../../../repo/src/df/dfs.rs");
    println!("cargo:rerun-if-changed={}", src.display());
    println!("cargo:rerun-if-changed=build.rs");
    let text = std::fs::read_to_string(&src).unwrap_or_else(|e| panic!("cannot read {}: {}", src.display(), e));
    // drop comment lines and trailing comments
    let mut clean = String::new();
    for line in text.lines() {
        let l = match line.find("//") {
            Some(p) => &line[..p],
            None => line,
        };
        clean.push_str(l);
        clean.push('\n');
    }
    let mut out = String::new();
    writeln!(out, "pub static FIELDS: &[FieldDef] = &[").unwrap();
    let mut rest = clean.as_str();
    let mut n = 0;
    while let Some(p) = rest.find("df!(") {
        // make sure it is the df! macro, not e.g. xdf!(
        let before_ok = p == 0 || !rest.as_bytes()[p - 1].is_ascii_alphanumeric() && rest.as_bytes()[p - 1] != b'_';
        let after = &rest[p + 4..];
        let end = after.find(");").expect("unterminated df! block");
        let block = &after[..end];
        rest = &after[end + 2..];
        if !before_ok {
            continue;
        }
        let mut id = String::new();
        let mut dt = String::new();
        let mut it = String::new();
        let mut len = String::new();
        let mut res: Option<String> = None;
        let mut bias: Option<String> = None;
        let mut round = false;
        let mut cap: Option<String> = None;
        let mut inv: Option<String> = None;
        let mut ord: Option<String> = None;
        for part in block.split(",\n") {
            let part = part.trim().trim_end_matches(',');
            if part.is_empty() {
                continue;
            }
            let (k, v) = match part.find(':') {
                Some(c) => (part[..c].trim(), part[c + 1..].trim().to_string()),
                None => continue,
            };
            match k {
                "id" => id = v,
                "dt" => dt = v,
                "it" => it = v,
                "len" => len = v,
                "res" => res = Some(v),
                "bias" => bias = Some(v),
                "round" => round = v == "true",
                "cap" => cap = Some(v),
                "inv" => inv = Some(v),
                "ord" => ord = Some(v),
                _ => {}
            }
        }
        if id.is_empty() || dt.is_empty() || it.is_empty() || len.is_empty() {
            panic!("could not parse df! block: {}", block);
        }
        let opt = |o: &Option<String>, ty: &str| match o {
            Some(v) => format!("Some(({}) as {})", v, ty),
            None => "None".to_string(),
        };
        let optstr = |o: &Option<String>| match o {
            Some(v) => format!("Some({:?})", v),
            None => "None".to_string(),
        };
        writeln!(
            out,
            "    FieldDef {{ id: {:?}, dt: {:?}, it: {:?}, len: {}, res: {}, res_src: {}, bias: {}, round: {}, cap: {}, inv: {}, has_ord: {}, dec: |b, o| dec_w(dfs::{}::decode, b, o), enc: |d, b, o| enc_w(dfs::{}::encode, d, b, o), dec_on: |p| dec_on_w(dfs::{}::decode, p), enc_on: |d, a| enc_on_w(dfs::{}::encode, d, a) }},",
            id,
            dt,
            it,
            len,
            opt(&res, "f64"),
            optstr(&res),
            opt(&bias, "f64"),
            round,
            optstr(&cap),
            opt(&inv, "i128"),
            ord.is_some(),
            id,
            id,
            id,
            id
        )
        .unwrap();
        n += 1;
    }
    writeln!(out, "];").unwrap();
    writeln!(out, "pub const N_FIELDS_SCANNED: usize = {};", n).unwrap();
    let dest = PathBuf::from(std::env::var("OUT_DIR").unwrap()).join("fields_gen.rs");
    std::fs::write(dest, out).unwrap();
}
