#!/usr/bin/env python3
"""Builds the brief for one seeding sub-agent: the text of one property, its own scratch
worktree of /repo under /tmp, and one-line titles of what earlier rounds already produced
for that property (so that it looks for something of a different nature).  Nothing from
/verif's machinery goes into the brief.
Usage: mkprompt.py <prop> <round, e.g. R10>   -> /tmp/seed-out/prompts/<prop>-<round>.prompt
       (also creates the worktree /tmp/wt<NN>-<prop> and the delivery dir /tmp/seed-out/<prop>-<round>)"""
import glob, json, os, subprocess, sys

prop, rnd = sys.argv[1], sys.argv[2]
p = next(json.loads(l) for l in open("/verif/properties.jsonl") if json.loads(l)["id"] == prop)
wt = "/tmp/wt%s-%s" % (rnd[1:], prop)
out = "/tmp/seed-out/%s-%s" % (prop, rnd)
os.makedirs(out, exist_ok=True)
os.makedirs("/tmp/seed-out/prompts", exist_ok=True)
if not os.path.exists(wt):
    subprocess.check_call(["git", "-C", "/repo", "worktree", "add", "--detach", wt, "HEAD"], stdout=subprocess.DEVNULL)
earlier = []
for n in sorted(glob.glob("/verif/seeded/%s-*/notes.md" % prop)):
    first = next((l.strip("# \n") for l in open(n) if l.strip()), "")
    if first:
        earlier.append(first[:260])
text = f"""You are testing how good a verification harness for the Rust crate rtcm-rs (RTCM v3 GNSS message
encoder/decoder, no_std) is.  You do not see that harness.  Your job is to write a *realistic* change to the
crate that BREAKS the property below while the crate still compiles and all its existing tests still pass.

Your private git worktree of the repository is {wt} (a detached checkout of the current HEAD).  Work ONLY
there.  Never touch /repo or /verif, never read anything under /verif.  Do not use `git stash` (it is shared
between worktrees).  No network: use `cargo test --offline`.

PROPERTY {prop}: {p['title']}
Statement: {p['statement']}
Quantified over: {p['quantifier']['text']}
Why the existing tests cannot settle it: {p['why_tests_cant']}
Code it is anchored in: {', '.join(p['anchors']['files'])}
Observed at: {', '.join(p['anchors'].get('observe_at') or [])}

What I want:
1. A change to files under src/ (or Cargo.toml) of the kind a real refactor, optimisation or feature commit
   could introduce, that makes the property false for SOME inputs.  It must need something specific to
   manifest: an unusual input, one exact value or size, a multi-step sequence of calls, state carried from
   one call to the next, a particular build configuration, or two cooperating sites that each look fine
   alone.  A careful reviewer and a decent randomized test campaign should both be likely to miss it.
   Ordinary use must NOT expose it at once.
2. The crate must still compile (default features and `--no-default-features`), and
   `cargo test --workspace --no-fail-fast --offline` must still pass completely with your change.
3. A demonstration: ONE integration test file using only the crate's public API (it will be copied to
   tests/seed_demo_{prop.lower()}_{rnd.lower()}.rs) that PASSES on the unchanged tree and FAILS with your change.
   (If the property is about build configurations, a shell script demo.sh <worktree> that exits 0 on the
   unchanged tree and non-zero with the change is fine instead.)
4. Earlier rounds already produced the changes listed below for this property.  Find something of a
   DIFFERENT nature (different code site, different trigger):
{chr(10).join('   - ' + e for e in earlier)}

Deliver, in {out}/ :
  patch.diff  (output of `git diff` in your worktree, touching only src/ or Cargo.toml — NOT the demo test)
  demo.rs     (the integration test; or demo.sh)
  notes.md    (first line: `# {prop}-{rnd}: <one-line title>`; then: what the change is, why the existing tests do
               not notice, exactly what is needed for it to manifest, and your estimate of how likely a
               randomized campaign is to hit it)
Before you finish: verify yourself that (a) the demo passes without the patch, (b) fails with it, (c) the whole
existing suite passes with it.  Leave the worktree with the patch NOT applied (git checkout -- . ; remove your
demo from tests/).  Reply with a two-line summary only.
"""
open("/tmp/seed-out/prompts/%s-%s.prompt" % (prop, rnd), "w").write(text)
print("/tmp/seed-out/prompts/%s-%s.prompt" % (prop, rnd), len(earlier), "earlier ideas;", wt)
