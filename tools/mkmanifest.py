#!/usr/bin/env python3
"""Regenerates /verif/MANIFEST.json from the table below (kept in one place so that the
manifest is always valid and in step with what is built)."""
import json, os, subprocess

ROOT = os.path.dirname(os.path.dirname(os.path.abspath(__file__)))

# id: (level, technique, text, note, design_ref)
CHECKS = {}
NOT_BUILT = {}

def add(i, level, technique, text, note, ref):
    CHECKS[i] = (level, technique, text, note, ref)

exec(open(os.path.join(ROOT, "tools", "checks_table.py")).read())

def hook_commits():
    try:
        out = subprocess.run(["git", "-C", os.path.join(ROOT, "..", "repo"), "log", "--format=%H %s"], stdout=subprocess.PIPE, text=True).stdout
        return [l.split()[0] for l in out.splitlines() if "verif hook" in l]
    except Exception:
        return []

m = {
    "version": 1,
    "setup_cmd": "./setup.sh",
    "hooks": {
        "guard": "--cfg rtcm_rs_verif",
        "enable": "harness/.cargo/config.toml sets build.rustflags = [\"--cfg\", \"rtcm_rs_verif\"]; the harness depends on /repo by path (../../repo) so every build compiles the current working tree with the hook module on",
        "baseline_off_cmd": "cd /repo && cargo test --workspace --no-fail-fast --offline",
        "source_commits": hook_commits(),
        "add_only": True,
    },
    "engines": [
        {"name": "rtcm-verif", "path": "harness", "serves_properties": sorted(k for k in CHECKS if k != "C19"), "kind_free_text": "Rust monitor binary: generated/hostile workloads against the real library in two build profiles (release, release+overflow-checks), independent reference oracles, panic monitor, JSON report"},
        {"name": "featcheck", "path": "featcheck.py", "serves_properties": ["C19"], "kind_free_text": "per-feature-selection builds of a small driver crate and comparison of its decode output with the full build"},
        {"name": "check", "path": "check", "serves_properties": sorted(CHECKS), "kind_free_text": "python driver: build, run both profiles, merge, known-finding matching, evidence, verdict, replay"},
    ],
    "checks": [],
    "not_applicable": [{"property_id": k, "reason": v} for k, v in sorted(NOT_BUILT.items())],
    "notes": "Technique family: runtime monitoring. Every verdict is 'held on the executions of this run', 'violated (replay file)' or 'inconclusive' (exit 2, never a VIOLATION line). See DESIGN.md.",
}
for i in sorted(CHECKS):
    level, technique, text, note, ref = CHECKS[i]
    m["checks"].append({
        "property_id": i,
        "quick_cmd": "./check %s quick" % i,
        "thorough_cmd": "./check %s thorough" % i,
        "evidence_file": "evidence/%s.json" % i,
        "replay_cmd_template": "./check %s --replay {path}" % i,
        "engine": "featcheck" if i == "C19" else "rtcm-verif",
        "level_claimed": {"category": level, "text": text, "design_ref": ref},
        "level_note": note,
        "technique": technique,
    })
if "C19" not in CHECKS:
    m["engines"] = [e for e in m["engines"] if e["name"] != "featcheck"]
json.dump(m, open(os.path.join(ROOT, "MANIFEST.json"), "w"), indent=1)
print("MANIFEST.json:", len(m["checks"]), "checks,", len(m["not_applicable"]), "not applicable")
