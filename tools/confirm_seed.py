#!/usr/bin/env python3
"""Confirms a sub-agent's seeded change independently, in a scratch worktree outside /repo
and /verif:  demo passes on the clean tree, fails with the patch; the repository's suite
passes with the patch.  On success stores it under /verif/seeded/<id>/.
Usage: confirm_seed.py <prop> <A|B> [--worktree DIR]"""
import json, os, shutil, subprocess, sys, time

def sh(cmd, cwd=None, timeout=3600, env=None):
    p = subprocess.run(cmd, cwd=cwd, stdout=subprocess.PIPE, stderr=subprocess.STDOUT, text=True, timeout=timeout, env=env)
    return p.returncode, p.stdout

def counts(o):
    passed = sum(int(l.split()[3]) for l in o.splitlines() if l.startswith("test result:"))
    failed = sum(int(l.split()[5]) for l in o.splitlines() if l.startswith("test result:"))
    return passed, failed

def confirm_shell(prop, ab, wt, src, sid, patch):
    """demonstration is a shell script: demo.sh <worktree>; exit 0 = property holds"""
    demo = os.path.join(src, "demo.sh")
    sh(["git", "checkout", "--", "."], cwd=wt)
    rec = {"id": sid, "property": prop, "confirmed_at": time.strftime("%Y-%m-%d %H:%M:%S"), "demo_kind": "shell script: demo.sh <worktree>"}
    touched = [l[6:] for l in open(patch).read().splitlines() if l.startswith("+++ b/")]
    rec["files_touched"] = touched
    if any(not (t.startswith("src/") or t == "Cargo.toml") for t in touched):
        print("REJECT: patch touches", touched); return 1
    rc0, o0 = sh(["bash", demo, wt])
    rec["demo_on_clean_tree"] = {"rc": rc0}
    if rc0 != 0:
        print("REJECT: demo.sh fails on the clean tree", o0[-1200:]); return 1
    rc, o = sh(["git", "apply", patch], cwd=wt)
    if rc != 0:
        print("REJECT: patch does not apply", o); return 1
    rc1, o1 = sh(["bash", demo, wt])
    rec["demo_with_change"] = {"rc": rc1, "tail": o1[-400:]}
    if rc1 == 0:
        print("REJECT: demo.sh passes with the change"); sh(["git", "checkout", "--", "."], cwd=wt); return 1
    rc, o = sh(["cargo", "test", "--workspace", "--no-fail-fast", "--offline"], cwd=wt)
    p2, f2 = counts(o)
    rec["suite_with_change"] = {"rc": rc, "passed": p2, "failed": f2}
    sh(["git", "checkout", "--", "."], cwd=wt)
    if rc != 0 or f2 != 0 or p2 < 840:
        print("REJECT: suite", p2, f2); return 1
    dst = os.path.join("/verif/seeded", sid)
    os.makedirs(dst, exist_ok=True)
    shutil.copy(patch, os.path.join(dst, "patch.diff"))
    shutil.copy(demo, os.path.join(dst, "demo.sh"))
    if os.path.exists(os.path.join(src, "demo.rs")):
        shutil.copy(os.path.join(src, "demo.rs"), os.path.join(dst, "demo.rs"))
    notes = open(os.path.join(src, "notes.md")).read() if os.path.exists(os.path.join(src, "notes.md")) else ""
    open(os.path.join(dst, "notes.md"), "w").write(notes)
    rec["breaks_property"] = prop
    rec["needs_to_manifest"] = "see notes.md (written by the sub-agent that authored the change)"
    rec["what_i_ran"] = ["sh demo.sh <worktree>   (clean tree: exit 0)", "git apply patch.diff ; sh demo.sh <worktree>   (exit %d)" % rc1, "cargo test --workspace --no-fail-fast --offline   (with the change: %d passed, %d failed)" % (p2, f2)]
    json.dump(rec, open(os.path.join(dst, "meta.json"), "w"), indent=1)
    print("CONFIRMED", sid, rec["demo_on_clean_tree"], rc1, rec["suite_with_change"])
    return 0


def main():
    prop, ab = sys.argv[1], sys.argv[2]
    wt = "/tmp/wt-" + prop
    if "--worktree" in sys.argv:
        wt = sys.argv[sys.argv.index("--worktree") + 1]
    src = "/tmp/seed-out/%s/%s" % (prop, ab)
    sid = "%s-%s" % (prop, ab)
    if ab.startswith("R"):
        # later rounds: one change per property, deliverables directly in <prop>-<round>
        src = "/tmp/seed-out/%s-%s" % (prop, ab)
        if "--worktree" not in sys.argv:
            wt = "/tmp/wt%s-%s" % (ab[1:], prop)
    patch = os.path.join(src, "patch.diff")
    demo = os.path.join(src, "demo.rs")
    if os.path.exists(os.path.join(src, "demo.sh")):
        # a shell demonstration (build configuration, release profile, ...) takes precedence; it may use demo.rs
        return confirm_shell(prop, ab, wt, src, sid, patch)
    tname = "seed_demo_%s_%s" % (prop.lower(), ab.lower())
    tfile = os.path.join(wt, "tests", tname + ".rs")
    sh(["git", "checkout", "--", "."], cwd=wt)
    sh(["git", "clean", "-fdq", "tests"], cwd=wt)
    rec = {"id": sid, "property": prop, "confirmed_at": time.strftime("%Y-%m-%d %H:%M:%S")}
    # patch touches only src/ or Cargo.toml
    touched = [l[6:] for l in open(patch).read().splitlines() if l.startswith("+++ b/")]
    rec["files_touched"] = touched
    if any(not (t.startswith("src/") or t == "Cargo.toml") for t in touched):
        print("REJECT: patch touches", touched); return 1
    shutil.copy(demo, tfile)
    denv = dict(os.environ)
    hook = "cfg(rtcm_rs_verif)" in open(demo).read()
    if hook:
        # the demo reaches crate-private code through the add-only hook re-export
        denv["RUSTFLAGS"] = "--cfg rtcm_rs_verif"
        denv["CARGO_TARGET_DIR"] = os.path.join(wt, "target", "hook")
    rec["demo_uses_hook_cfg"] = hook
    dcmd = ["cargo", "test", "--offline", "--test", tname]
    if 'feature = "serde"' in open(demo).read():
        dcmd = ["cargo", "test", "--offline", "--features", "serde", "--test", tname]
        rec["demo_needs_features"] = ["serde"]
    rc, o = sh(dcmd, cwd=wt, env=denv)
    p0, f0 = counts(o)
    rec["demo_on_clean_tree"] = {"rc": rc, "passed": p0, "failed": f0}
    if rc != 0 or f0 != 0 or p0 == 0:
        print("REJECT: demo does not pass on the clean tree\n", o[-1500:]); return 1
    rc, o = sh(["git", "apply", patch], cwd=wt)
    if rc != 0:
        print("REJECT: patch does not apply", o); return 1
    rc, o = sh(dcmd, cwd=wt, env=denv)
    p1, f1 = counts(o)
    rec["demo_with_change"] = {"rc": rc, "passed": p1, "failed": f1}
    aborted = rc != 0 and "Running " in o and ("SIGABRT" in o or "SIGSEGV" in o or "has overflowed its stack" in o)
    if aborted:
        # the test process was killed (e.g. stack overflow): that is a failing demonstration, not a compile error
        rec["demo_with_change"]["aborted"] = True
        f1 = max(f1, 1)
    if rc == 0 or f1 == 0:
        # a compile error of the demo also counts as "does not demonstrate"
        print("REJECT: demo does not fail with the change\n", o[-1500:]); sh(["git", "checkout", "--", "."], cwd=wt); os.remove(tfile); return 1
    os.remove(tfile)
    rc, o = sh(["cargo", "test", "--workspace", "--no-fail-fast", "--offline"], cwd=wt)
    p2, f2 = counts(o)
    rec["suite_with_change"] = {"rc": rc, "passed": p2, "failed": f2}
    sh(["git", "checkout", "--", "."], cwd=wt)
    if rc != 0 or f2 != 0 or p2 < 840:
        print("REJECT: existing suite does not pass with the change", p2, f2, o[-800:]); return 1
    dst = os.path.join("/verif/seeded", sid)
    os.makedirs(dst, exist_ok=True)
    shutil.copy(patch, os.path.join(dst, "patch.diff"))
    shutil.copy(demo, os.path.join(dst, "demo.rs"))
    notes = open(os.path.join(src, "notes.md")).read() if os.path.exists(os.path.join(src, "notes.md")) else ""
    open(os.path.join(dst, "notes.md"), "w").write(notes)
    rec["breaks_property"] = prop
    rec["needs_to_manifest"] = "see notes.md (written by the sub-agent that authored the change)"
    rec["what_i_ran"] = [
        "cargo test --offline --test %s   (clean tree: %d passed)" % (tname, p0),
        "git apply patch.diff ; cargo test --offline --test %s   (%d failed)" % (tname, f1),
        "cargo test --workspace --no-fail-fast --offline   (with the change, without the demo: %d passed, %d failed)" % (p2, f2),
    ]
    json.dump(rec, open(os.path.join(dst, "meta.json"), "w"), indent=1)
    print("CONFIRMED", sid, rec["demo_on_clean_tree"], rec["demo_with_change"], rec["suite_with_change"])
    return 0

if __name__ == "__main__":
    sys.exit(main())
